#!/usr/bin/env python3
"""Regenerates /verif/MANIFEST.json from the table below (run after adding a check)."""
import json
import os

ROOT = os.path.dirname(os.path.dirname(os.path.abspath(__file__)))

MSCHED_TECH = "stateless model checking of the real code: exhaustive DFS over the schedules of a controlled task scheduler (preemption-bounded) x bounded scenario grammar"
MSCHED_NOTE = ("Trusted: tokio 1.49 primitives behave on the current-thread runtime as on the multi-thread one; scheduling is at task "
               "granularity (no interleaving of two OS threads inside one synchronous stretch of rsactor, DESIGN.md 5/L1); bounds of the grammar; the harness.")

CHECKS = {
    "C01": ("msched", "model_checking", "6/C01", "Every schedule (preemption bound 2 quick / 3 thorough) of every 2-3 client program of <=4 (5) tell/ask/timeout/stop/drop operations against one real actor (capacity 1-2, slow or gated handlers) is executed on the real code and checked for: at most once, rejected never, accepted-before-stop/drop exactly once before on_stop."),
    "C02": ("msched", "model_checking", "6/C02", "Same execution space as C01 plus erased routes and three senders queued on one slot; oracle: a send that completed before another began is handled first; stop() takes its place in mailbox order."),
    "C03": ("msched", "model_checking", "6/C03", "All schedules of concurrent askers (ask, ask_with_timeout, ask_join, three reply types) against every termination cause landing while asks are queued, in flight or waiting for a slot; oracle: reply identity by (id, sequence number), completion of every ask at global quiescence."),
    "C04": ("msched", "model_checking", "6/C04", "All schedules of every combination of hook outcomes (on_start/on_run/on_stop: ok, error, panic) x termination causes racing from two clients; oracle: the per-actor hook trace follows the lifecycle grammar, on_stop exactly when and with the killed flag the property states."),
    "C05": ("msched", "model_checking", "6/C05", "Same execution space as C04; oracle: the JoinHandle's ActorResult (variant, phase, killed, error identity, actor presence and the actor's own hook log) equals what the hook trace says; every accessor/conversion is compared with its definition on each obtained value."),
    "C06": ("msched", "model_checking", "6/C06", "All schedules of kill() (once, twice, erased, followed by a send) against mailbox contents 0..cap+1, every actor phase, concurrent stop/drop, for several tokio select seeds; oracle: kill returns Ok in the step it started, at most one further handler, no on_run progress, on_stop(true), killed result, leftover sends fail."),
    "C07": ("msched", "model_checking", "6/C07", "All handle histories of length <=3 (4) over clone/drop/downgrade/upgrade/erase/clone_boxed/send by one client with a second client keeping, dropping or stopping; reference counts are tracked by the harness from its own slot events; oracle at global quiescence: ended iff stopped or unreferenced; a probe ask through a remaining handle is answered."),
    "C08": ("msched", "model_checking", "6/C08", "All schedules of on_run scripts (<=3 invocations, yields/sleeps, Ok(true)/Ok(false)/Err) against message traffic, stop and kill; on_run's first instruction runs in the poll that select! grants it, so a mis-ordered or unbiased select is visible; oracle: zero accepted-but-untaken messages whenever on_run progresses, Ok(false) final, Ok(true) re-armed, Err -> on_stop(false) + Failed."),
    "C09": ("c09", "model_checking", "6/C09", "All schedules of cap+2 tells (+stop) from 1-3 clients against capacities 1-3 and the spawn() default with a parked actor; oracle: harness-side occupancy never exceeds the capacity, a sender that is still blocked at a quiescent point implies no free slot, tells to a live actor never fail; capacity 0 panics. Configuration clause (procenum): every call sequence of length <=3 (4) over {set(0), set(1), set(2), set(5), spawn-and-measure, spawn_with_capacity(0), spawn_with_capacity(3)-and-measure}, one fresh process each, compared with a reference model Option<usize>; spawn-and-measure counts how many tells complete against an actor parked in on_start."),
    "C10": ("msched", "model_checking", "6/C10", "Whole schedule tree under a virtual clock for every timeout value x natural completion time x mailbox state x actor death; oracle: Timeout exactly at the deadline and only if completion was not strictly earlier, Ok at the instant of completion, other errors at the instant they arise, is_retryable <=> Timeout."),
    "C11": ("msched", "model_checking", "6/C11", "All schedules of derivation chains over every handle kind with identity/is_alive/upgrade probes at every lifecycle point and after every termination cause; oracle: identity equals the spawn's, ids distinct, is_alive true before the end begins / false after join, upgrade agrees with harness-side reference bounds. Thread level (tsched, hook H4): every interleaving between 2-3 real OS threads of the operations on the process-wide state involved here is explored as well - 3x2 and 2x3 concurrent spawns through both entry points, ids pairwise distinct."),
    "C13": ("msched", "model_checking", "6/C13", "All schedules of every pair of tell/ask-family operations against an actor in each lifecycle state (live, parked, full, stopping, dead by four causes), direct and erased, build with test-utils; oracle: exactly one dead letter with matching reason/target/type/operation per failure, none per success, counter delta = failures. Thread level (tsched, hook H4): every interleaving between 2-3 real OS threads of the operations on the process-wide state involved here is explored as well - 3x2 and 2x3 failing tell/ask/blocking_tell against an ended actor, counter delta = records = failures."),
    "C17": ("bthreads", "exploration", "6/C17", "Operation-level exhaustive, thread-level free-running: every order of the operations of 2-4 callers (plain threads, spawn_blocking tasks, async tasks calling the timeout variants, async senders, gate openings, stop/kill) in 19 (20) scenarios - gated handler with capacity 1, timeouts against a full mailbox and a silent actor, actor stopped/killed under blocking callers, deprecated aliases, calls from inside the runtime, extreme timeout values, a bounded ask that gives up before the actor dies - handler panics under parked callers and under a waiting asker, a long next to a short deadline, callers inside a current-thread runtime - is run on the real code with real OS threads (build with test-utils); oracle: at most once, failed sends never handled, accepted ones handled, reply integrity, order of handling vs. observed completion and per-thread program order, Timeout never early and back by deadline + 0.8 s, aliases never time out, no panic, one dead letter per failed delivery naming target, message type and a reason matching the error, on_tell_result exactly once after a tell and never after an ask. A violation must recur when the same order is run again."),
    "C19": ("c19", "model_checking", "6/C19", "Two exhaustive parts. (a) Bounded-exhaustive program enumeration: all 840 programs of the grammar actor shape (incl. actors generic over the handler error type, bounds inline or in a where clause) x return-type spelling (incl. a four-segment Result path, a 9 KB error text, a Box<dyn Any + Send> reply) x #[handler] option x message genericity/extra methods (each with a no_log and a plain Result neighbour handler) are compiled against the real macros; the 364 that an independent decision table (tools/gen_corpus.py, written from the documentation) says must compile are run for tell/ask x Ok/Err and compared with the table (Reply type equality, ask value, exactly one error log naming actor+message iff the table says so, never after ask, derive(Actor) infallible and on_start = identity); the 476 invalid combinations must be rejected, with the documented diagnostic where the macro itself diagnoses. (b) msched: all schedules of the C01 scenario family plus Result-returning messages with a hand-written on_tell_result: exactly once after a tell with the handler's value, never after an ask - including asks whose caller gave up."),
    "C12": ("msched2", "model_checking", "6/C12", "All schedules (bound 2/3, capped per scenario) of a three-actor system (victim V, peers P and Q exchanging asks with V and with each other, two clients) with a crash injected at every hook of V - on_start panic/error, three different handlers, first and second on_run (panic and error), on_stop panic/error - and, in the all-features build, a provoked deadlock-detection panic (self-ask, and a genuine cycle with a peer); run on the all-features build and on the default build; oracle: the victim's JoinHandle reports the panic/failure, no on_stop after a panic, its senders get errors, the C01-C05/C08/C11 oracles hold for every surviving actor, dead-letter accounting is exact (C13 oracle), follow-up asks between survivors and to a freshly spawned actor succeed, ids advance, the wait-for graph is empty and its lock not poisoned."),
    "C14": ("msched", "model_checking", "6/C14", "Whole schedule tree (quick bound 3, in practice exhaustive) of ask rings of length 1-3 (4 thorough) whose edges are issued from every hook (on_start, handler, on_run, on_stop) and with every ask flavour (ask, ask_with_timeout, erased AskHandler), each edge with its own trigger so that the schedule decides the creation order, plus nested chains; build with deadlock-detection; oracle: an ask that closes a cycle of unanswered in-flight asks (harness-side relation) panics at once with a message naming every actor of the cycle, nobody is left waiting at global quiescence, the wait-for graph (hook H1) contains the edge of every blocked asker. Thread level (tsched, hook H4): every interleaving between 2-3 real OS threads of the operations on the process-wide state involved here is explored as well - ask rings of 2 and 3 actors each on its own thread and runtime, and a ring with a bystander: exactly one ring member panics, naming the ring; nobody is left waiting."),
    "C15": ("msched", "model_checking", "6/C15", "Same rings (where in most schedules the asks do not all overlap) plus acyclic-in-time/cyclic-in-topology families with every way an ask can end (reply, timeout, callee killed, callee panics, on_run cancelled), 2 and 3 actors, typed and erased; oracle: every Deadlock panic is justified by a chain of unanswered in-flight asks at that instant, only pending asks of their owner appear in the graph (H1), non-actor callers never appear or panic, the graph is empty once every ask has finished. This check found defect D1 (see known_findings.json), repaired by the fix: commit. Thread level (tsched, hook H4): every interleaving between 2-3 real OS threads of the operations on the process-wide state involved here is explored as well - the same rings: never more than one victim, never the bystander, graph empty at the end."),
    "C16": ("diff", "model_checking", "6/C16", "Differential model checking: for every direct program (2 clients, <=3 (4) operations over tell/ask/timeouts/stop/kill/is_alive/drop, weak handles around the actor's end, futures created but not awaited) the whole schedule tree of the direct run and of each erased variant (owned From, borrowed From, clone_boxed, boxed downgrade/upgrade round trip; one or both clients) is explored on the real code; same schedule must give the same observable trace (results, errors, hook traces, virtual timing, dead letters, termination), else the two sets of traces of the complete trees must be equal."),
    "C18": ("features", "model_checking", "6/C18", "The same 690 cycle-free scenarios (drawn from the grammars of C01-C13 plus hooks asking other actors without asking back) are explored (preemption bound 2) by one harness build per rsactor feature set - default, each single feature and all four (quick), all 16 subsets (thorough); per scenario the hash over all (schedule, feature-neutral observable trace) pairs must equal the default build's."),
    "C20": ("msched", "model_checking", "6/C20", "All schedules (bound 2/3) of message sequences <=3 (4) with fast, busy (2 ms real time) and yielding handlers, a panicking handler, each termination cause, 1-2 concurrent metrics readers through strong and weak-upgraded handles, build with metrics; oracle: every read of message_count lies between handlers finished and handlers entered at that position and never decreases per reader, after the end it equals handlers entered, avg <= max, max >= the longest busy handler, snapshot == accessors, same final values through every handle."),
}

PROPS = [json.loads(l) for l in open(os.path.join(ROOT, "properties.jsonl"))]

TS = "; plus thread-level stateless model checking (tsched): exhaustive DFS over the interleavings, between real OS threads, of every operation on the process-wide atomics and the wait-for graph lock (hook H4)"
TS2 = "; plus thread-level stateless model checking (tsched): preemption-bounded exhaustive DFS over the interleavings of a sending thread and an actor-ending thread, with every tracing event / span boundary inside rsactor as a scheduling point"
BT = "; plus exhaustive enumeration of operation-level orders of real OS threads (bthreads) for the blocking_* forms"
TECH = {
    "C01": MSCHED_TECH + BT + TS2,
    "C03": MSCHED_TECH + TS2 + BT,
    "C02": MSCHED_TECH + BT,
    "C05": MSCHED_TECH + "; plus exhaustive enumeration of all 18 ActorResult shapes",
    "C09": MSCHED_TECH + " (default build and deadlock-detection build)" + BT + "; plus exhaustive enumeration of call sequences (one fresh process each) against a reference model",
    "C10": MSCHED_TECH + " under a virtual clock" + BT + "; plus exhaustive enumeration of the Error variants",
    "C11": MSCHED_TECH + TS + " (decide); a sampling multi-thread stress run is reported alongside, labelled non-deciding",
    "C12": MSCHED_TECH + ", on two builds" + BT,
    "C20": MSCHED_TECH + ", on the metrics build and on the metrics+tracing build (decide); one deterministic execution of an actor with macro-generated handlers (handlers entered = message_count); a sampling run with concurrent reader threads is reported alongside, labelled non-deciding",
    "C13": MSCHED_TECH + BT + TS + " (decide); a sampling multi-thread stress run of the counter is reported alongside, labelled non-deciding",
    "C15": MSCHED_TECH + ", run on two builds of the harness (debug assertions on / off)" + TS + " (with tracing events as further scheduling points)",
    "C14": MSCHED_TECH + ", run on two builds of the harness (debug assertions on / off)" + TS + "; plus exhaustive enumeration of all acyclic functional graphs with <= 5 (6) nodes for the wait-for walk",
    "C16": "differential stateless model checking: the whole schedule tree of a direct program and of each type-erased variant, same schedule => same observable trace" + BT,
    "C17": "exhaustive enumeration of operation-level orders of real OS threads driving the blocking API of the real code (thread timing inside one operation is free-running)",
    "C18": "stateless model checking per cargo-feature build: one harness build per feature set explores the same scenarios; per-scenario hash over all (schedule, feature-neutral trace) pairs compared with the default build",
    "C19": "bounded-exhaustive enumeration of macro input programs compiled against the real macros and compared with an independent decision table; " + MSCHED_TECH + BT,
}

checks = []
for pid, (engine, cat, ref, text) in sorted(CHECKS.items()):
    checks.append({
        "property_id": pid,
        "quick_cmd": "./check %s --tier quick" % pid,
        "thorough_cmd": "./check %s --tier thorough" % pid,
        "evidence_file": "/verif/evidence/%s.json" % pid,
        "replay_cmd_template": "./check replay {path}",
        "engine": engine,
        "level_claimed": {"category": cat, "text": text, "design_ref": "DESIGN.md section " + ref},
        "level_note": MSCHED_NOTE,
        "technique": TECH.get(pid, MSCHED_TECH),
    })

na = []
for p in PROPS:
    if p["id"] not in CHECKS:
        na.append({"property_id": p["id"], "reason": "check not built yet (work in progress; planned engine in DESIGN.md section 6)"})

manifest = {
    "version": 1,
    "setup_cmd": "./check --setup",
    "hooks": {
        "guard": "--cfg rsactor_verif",
        "enable": "RUSTFLAGS='--cfg rsactor_verif --cfg tokio_unstable' cargo build --release (in /verif/harness, rsactor as path dependency on /repo); done by ./check",
        "baseline_off_cmd": "cd /repo && (cargo nextest run --workspace --no-fail-fast --tool-config-file pb:/w/lib/nextest.toml --profile pb --test-threads 8 --offline || cargo test --workspace --no-fail-fast --offline)",
        "source_commits": ["cf7291f", "bef39fe", "895d681"],
        "add_only": True,
    },
    "engines": [
        {"name": "msched", "path": "/verif/harness", "serves_properties": sorted(k for k, v in CHECKS.items() if v[0] in ("msched", "msched2", "diff", "features", "c09", "c19")),
         "kind_free_text": "controlled deterministic task scheduler + virtual clock on a real tokio current-thread runtime running the real rsactor code; stateless DFS with replay, preemption-bounded; also hosts the differential (C16), per-feature-build (C18), procenum (C09) and bthreads (C17) drivers as subcommands of the same binary"},
        {"name": "bthreads", "path": "/verif/harness/src/bthreads.rs", "serves_properties": ["C17"], "kind_free_text": "real OS threads driven through every operation-level order by a coordinator"},
        {"name": "macrocorpus", "path": "/verif/tools/gen_corpus.py", "serves_properties": ["C19"], "kind_free_text": "bounded-exhaustive generation of macro input programs + independent decision table; compiled against the real macros"},
        {"name": "tsched", "path": "/verif/harness/src/tsched.rs", "serves_properties": ["C01", "C03", "C11", "C13", "C14", "C15"], "kind_free_text": "controlled scheduler for real OS threads: every operation on rsactor's process-wide atomics / graph lock (hook H4) and, in the tracing build, every tracing event and span boundary inside rsactor is a scheduling point; stateless DFS over the interleavings"},
        {"name": "procenum", "path": "/verif/check", "serves_properties": ["C09"], "kind_free_text": "one fresh process per call sequence against the process-wide default capacity, compared with a reference model"},
    ],
    "checks": checks,
    "notes": "See DESIGN.md. Replays of violations are written to /verif/replays; known findings in /verif/known_findings.json.",
    "not_applicable": na,
}
json.dump(manifest, open(os.path.join(ROOT, "MANIFEST.json"), "w"), indent=1)
print("wrote MANIFEST.json with %d checks, %d not_applicable" % (len(checks), len(na)))
