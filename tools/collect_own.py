#!/usr/bin/env python3
"""Adds the coordinator's own hand-made mutants (catalogue of DESIGN.md's first version) to /verif/seeded."""
import json, os, re, shutil
SRC = "/tmp/own"; DST = "/verif/seeded"
DESC = {
 "M01": ("C06", "remove `biased;` from the actor loop's select!"), "M04": ("C08", "Ok(false) from on_run does not clear the idle flag"),
 "M05": ("C07", "Ok(false) from on_run ends the loop when both channels are empty"), "M06": ("C07", "the lifecycle task keeps its own strong reference"),
 "M07": ("C04", "killed = true when the termination channel closes"), "M08": ("C04", "the stop-marker path breaks out of the loop without calling on_stop"),
 "M10": ("C05", "on_run-error path reports the on_stop error instead of the on_run error"), "M11": ("C05", "wrong FailurePhase (OnRun) when on_stop fails during termination"),
 "M13": ("C09", "tell uses try_send: a full mailbox makes it fail"), "M15": ("C07", "stop() uses try_send and ignores Full"),
 "M16": ("C10", "ask_with_timeout builds its timeout from as_secs()"), "M17": ("C10", "tell_with_timeout maps every inner error to Timeout"),
 "M18": ("C06", "kill() returns Err when the termination channel is closed"), "M19a": ("C09", "mailbox channel created with capacity + 1"),
 "M19b": ("C09", "mailbox channel created with max(capacity, 4)"), "M20a": ("C09", "DEFAULT_MAILBOX_CAPACITY = 64"), "M20b": ("C09", "set_default_mailbox_capacity(0) accepted"),
 "M21": ("C19", "on_tell_result never invoked"), "M22": ("C11", "is_alive = either channel open (equivalent mutant: both channels always close together)"),
 "M23a": ("C13", "dead-letter counter incremented by 2"), "M23b": ("C13", "ask timeout recorded with reason ReplyDropped"),
 "M24": ("C14", "wait-for walk bounded by len-1 steps"), "M25": ("C14", "self-ask test removed"), "M26": ("C14", "on_run runs outside the task-local actor scope"),
 "M28": ("C15", "the drop guard does not remove its edge"), "M30a": ("C16", "erased tell_with_timeout ignores its timeout"), "M30b": ("C16", "ActorControl::stop forwards to kill"),
 "M30c": ("C16", "erased ask_with_timeout doubles its timeout"), "M31": ("C17", "deprecated tell_blocking passes its timeout on"),
 "M40": ("C14", "ask(): cycle check under one hold of the wait-for graph lock, edge insertion under a second one (two OS threads can both pass the check)"),
 "M32": ("C18", "metrics build: the per-message ActorRef clone is leaked (mem::forget)"), "M33": ("C20", "message_count incremented by 2"),
}
matrix = {}
if os.path.exists(os.path.join(SRC, "matrix.txt")):
    for l in open(os.path.join(SRC, "matrix.txt")):
        m = re.match(r"(M\w+) (C\d+) rc=(\d+)\s*(.*)", l)
        if m:
            matrix.setdefault(m.group(1), {})[m.group(2)] = {"exit": int(m.group(3)), "first_violation": m.group(4).strip()[:300]}
for name, (prop, desc) in DESC.items():
    diff = os.path.join(SRC, name + ".diff")
    if not os.path.exists(diff):
        continue
    out = os.path.join(DST, "own_" + name)
    os.makedirs(out, exist_ok=True)
    shutil.copy2(diff, os.path.join(out, "patch_head.diff"))
    suite = ""
    sp = os.path.join(SRC, name + ".suite.txt")
    if os.path.exists(sp):
        suite = open(sp).read().strip()
    ok = "312 passed" in suite and "FAIL" not in suite
    meta = {"id": "own_" + name, "property": prop, "origin": "hand-made by the coordinator from the mutant catalogue in the first version of DESIGN.md; patch is against /repo HEAD (with the D1 fix)",
            "summary": desc, "needs_to_manifest": "", "confirmed_by_coordinator": {"what_was_run": "scratch worktree at HEAD: git apply; pinned suite (nextest)", "suite_with_mutant": suite, "ok": ok,
            "note": "no separate demonstration program; the replay written by the catching check is the demonstration" + ("" if ok else " -- NOT a valid seed if the suite does not pass with it")},
            "detected_by": matrix.get(name, {}), "patch_applied_for_detection": "patch_head.diff", "extra_checks": [p for p in matrix.get(name, {}) if p != prop]}
    json.dump(meta, open(os.path.join(out, "meta.json"), "w"), indent=1)
print("own mutants:", len([d for d in os.listdir(DST) if d.startswith("own_")]))
