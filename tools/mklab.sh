#!/bin/bash
# A mutant lab: a private copy of /verif wired to a scratch worktree of /repo, so that seeded changes can be
# applied and checked without touching /repo itself.   usage: tools/mklab.sh [labdir=/tmp/lab]
LAB=${1:-/tmp/lab}
mkdir -p $LAB
if [ ! -d $LAB/repo ]; then git -C /repo worktree add -q --detach $LAB/repo HEAD; fi
git -C $LAB/repo checkout -q --detach $(git -C /repo rev-parse HEAD) 2>/dev/null; git -C $LAB/repo checkout -- . ; git -C $LAB/repo clean -fdq
rsync -a --delete --exclude target --exclude .git --exclude replays --exclude evidence /verif/ $LAB/verif/
mkdir -p $LAB/verif/replays $LAB/verif/evidence
sed -i "s#path = \"/repo\"#path = \"$LAB/repo\"#" $LAB/verif/harness/Cargo.toml $LAB/verif/tools/gen_corpus.py
sed -i "s#target-dir = \"/verif/target\"#target-dir = \"$LAB/verif/target\"#" $LAB/verif/harness/.cargo/config.toml
echo "lab ready: $LAB (repo worktree at $(git -C $LAB/repo rev-parse --short HEAD))"
