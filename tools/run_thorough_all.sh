#!/bin/bash
# runs every thorough check in turn and prints its wall time (meant for `vp run`)
./check --setup > /dev/null 2>&1
for p in C01 C02 C03 C04 C05 C06 C07 C08 C09 C10 C11 C12 C13 C14 C15 C16 C17 C18 C19 C20; do
  s=$(date +%s); ./check $p --tier thorough 2>&1 | grep -v "^built"; echo "   [$p thorough: exit ${PIPESTATUS[0]}, $(( $(date +%s) - s )) s]"
done
