#!/usr/bin/env python3
"""Assembles /verif/seeded/<id>/ from the sub-agents' deliverables (/tmp/seedout) and the confirmation runs (/tmp/cf)."""
import json, os, shutil, sys
SRC = "/tmp/seedout"; CF = "/tmp/cf"; DST = "/verif/seeded"
for prop in sorted(os.listdir(SRC)):
    pdir = os.path.join(SRC, prop)
    if not os.path.isdir(pdir):
        continue
    for m in sorted(os.listdir(pdir)):
        mdir = os.path.join(pdir, m)
        if not os.path.isfile(os.path.join(mdir, "patch.diff")):
            continue
        sid = "%s_%s" % (prop, m)
        out = os.path.join(DST, sid)
        os.makedirs(out, exist_ok=True)
        for f in ("patch.diff", "patch_head.diff", "demo.rs"):
            if os.path.exists(os.path.join(mdir, f)):
                shutil.copy2(os.path.join(mdir, f), os.path.join(out, f))
        agent = {}
        try:
            agent = json.load(open(os.path.join(mdir, "meta.json")))
        except Exception:
            pass
        conf = {}
        cf = os.path.join(CF, "%s_%s.result.json" % (prop, m))
        if os.path.exists(cf):
            conf = json.load(open(cf))
        base = "cf7291f"
        if os.path.exists(os.path.join(mdir, "base.txt")):
            base = open(os.path.join(mdir, "base.txt")).read().strip()
        old = {}
        if os.path.exists(os.path.join(out, "meta.json")):
            old = json.load(open(os.path.join(out, "meta.json")))
        meta = {
            "id": sid,
            "property": prop,
            "origin": "written by a sub-agent (round %s) that was given only the text of property %s and a scratch worktree of /repo at %s" % (("7" if m in ("m13", "m14") else "6" if m in ("m11", "m12") else "5" if m in ("m9", "m10") else "4" if m in ("m7", "m8") else "3" if m in ("m5", "m6") else "2") if base != "cf7291f" else "1", prop, base),
            "summary": agent.get("summary", ""),
            "needs_to_manifest": agent.get("needs_to_manifest", ""),
            "demo_cmd": agent.get("demo_cmd", ""),
            "demo_features": agent.get("demo_features", ""),
            "patch_base": base + " (patch.diff)" + ("; patch_head.diff is the same change ported by hand onto the current /repo HEAD, because later commits there (the D1 fix d4357ad, hook H4 895d681) changed the original context" if os.path.exists(os.path.join(out, "patch_head.diff")) else ""),
            "confirmed_by_coordinator": {
                "what_was_run": "scratch worktree of /repo at " + base + ": git apply patch.diff; cargo build --all-features; the pinned suite (cargo nextest run --workspace ... --test-threads 8 --offline); demo copied to tests/seed_demo.rs and run with the mutant, then without (git apply -R)",
                "build_all_features": conf.get("build_all_features"),
                "suite_with_mutant": conf.get("suite_with_mutant"),
                "demo_exit_with_mutant": conf.get("demo_exit_with_mutant"),
                "demo_exit_without_mutant": conf.get("demo_exit_without_mutant"),
                "ok": conf.get("ok"),
            },
            "detected_by": old.get("detected_by", {}),
            "notes": old.get("notes", ""),
        }
        json.dump(meta, open(os.path.join(out, "meta.json"), "w"), indent=1)
print("collected", len(os.listdir(DST)))
