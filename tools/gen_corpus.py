#!/usr/bin/env python3
"""Generates the macro corpus for C19: every program of a bounded grammar of actor shapes, handler return-type
spellings, #[handler] options, message genericity and extra methods, together with the verdict an independent
decision table (written from the documentation of the macros, not from their source) assigns to it.

  gen_corpus.py <outdir>   writes <outdir>/pos (one crate, all programs expected to compile, with a runner)
                           and    <outdir>/neg (one crate, one bin target per program expected NOT to compile)
                           and    <outdir>/table.json
"""
import itertools
import json
import os
import sys

SHAPES = ["unit", "tuple", "named", "enum", "generic", "generic_e_where", "generic_e_inline"]
RETS = ["none", "unit", "u32", "boxed_any", "result", "std_result", "path_result", "path4_result", "result_longerr", "alias"]
ATTRS = ["plain", "result", "no_log", "result_no_log", "bogus", "assign"]
MSGV = ["plain", "generic_extra"]

RET_TYPE = {
    "none": None,
    "unit": "()",
    "u32": "u32",
    "boxed_any": "Box<dyn std::any::Any + Send>",
    "result": "Result<u32, String>",
    "std_result": "std::result::Result<u32, String>",
    "path_result": "other::Result<u32>",
    "path4_result": "deep::er::still::Result<u32>",
    "result_longerr": "Result<u32, String>",
    "alias": "MyRes",
}
IS_RESULT = {"result", "std_result", "path_result", "path4_result", "result_longerr", "alias"}
SYNTACTIC_RESULT = {"result", "std_result", "path_result", "path4_result", "result_longerr"}  # last path segment is literally `Result`
ATTR_SRC = {
    "plain": "#[handler]",
    "result": "#[handler(result)]",
    "no_log": "#[handler(no_log)]",
    "result_no_log": "#[handler(result, no_log)]",
    "bogus": "#[handler(bogus)]",
    "assign": '#[handler = "x"]',
}


def compiles(attr, ret):
    """Documented table: unknown options and result+no_log are compile errors; `result` needs a Result return."""
    if attr in ("result_no_log", "bogus", "assign"):
        return False
    if attr == "result":
        return ret in IS_RESULT
    return True


def logs(attr, ret):
    """Result return (recognisable by spelling) or #[handler(result)] logs Err values of tells; no_log never."""
    if attr == "no_log":
        return False
    if attr == "result":
        return True
    return ret in SYNTACTIC_RESULT


def shape_src(shape):
    """(type definition, type name with generics, impl header generics, where clause, constructor expr, equality expr)"""
    if shape == "unit":
        return ("#[derive(Actor, Debug, PartialEq, Clone)]\n    pub struct A;", "A", "", "", "A", )
    if shape == "tuple":
        return ("#[derive(Actor, Debug, PartialEq, Clone)]\n    pub struct A(pub u32, pub String);", "A", "", "", 'A(7, "x".to_string())')
    if shape == "named":
        return ("#[derive(Actor, Debug, PartialEq, Clone)]\n    pub struct A { pub n: u32, pub s: String }", "A", "", "", 'A { n: 7, s: "x".to_string() }')
    if shape == "enum":
        return ("#[derive(Actor, Debug, PartialEq, Clone)]\n    pub enum A { Idle, Busy(u32), Named { k: u8 } }", "A", "", "", "A::Named { k: 3 }")
    if shape == "generic":
        return ("#[derive(Actor, Debug, PartialEq, Clone)]\n    pub struct A<T> where T: Send + 'static + Clone + std::fmt::Debug + PartialEq { pub v: T, pub n: u32 }",
                "A<T>", "<T>", "where T: Send + 'static + Clone + std::fmt::Debug + PartialEq", "A::<Vec<u8>> { v: vec![1, 2], n: 7 }")
    # generic over the handler's error type: bounds in a where clause, or inline in the impl header
    ebounds = "std::fmt::Display + Send + 'static + Clone + std::fmt::Debug + PartialEq"
    if shape == "generic_e_where":
        return ("#[derive(Actor, Debug, PartialEq, Clone)]\n    pub struct A<E> where E: %s { pub e: E, pub n: u32 }" % ebounds,
                "A<E>", "<E>", "where E: %s" % ebounds, 'A::<String> { e: "boom".to_string(), n: 7 }')
    if shape == "generic_e_inline":
        return ("#[derive(Actor, Debug, PartialEq, Clone)]\n    pub struct A<E: %s> { pub e: E, pub n: u32 }" % ebounds,
                "A<E>", "<E: %s>" % ebounds, "", 'A::<String> { e: "boom".to_string(), n: 7 }')
    raise ValueError(shape)


def body_for(ret):
    if ret in ("none", "unit"):
        return "let _ = flag;", None
    if ret == "u32":
        return "if flag { 41 } else { 42 }", None
    if ret == "boxed_any":
        # a reply that is itself a type-erased box (the reply channel boxes replies as `dyn Any` too)
        return "if flag { Box::new(41u32) as Box<dyn std::any::Any + Send> } else { Box::new(String::from(\"forty-two\")) }", None
    if ret == "result_longerr":
        # an error text of several kilobytes of three-byte characters (with one byte of padding so that no power-of-two
        # offset is a character boundary), the way an error echoing a payload in some scripts looks
        return 'if flag { Err(format!("boom x{}", "\\u{d55c}\\u{ae00}".repeat(1500))) } else { Ok(1) }', None
    return 'if flag { Err("boom".to_string()) } else { Ok(1) }', None


def expected_reply(ret, flag):
    if ret in ("none", "unit"):
        return "()"
    if ret == "u32":
        return "41" if flag else "42"
    if ret == "boxed_any":
        return "Any { .. }"
    if ret == "result_longerr" and flag:
        return 'Err("boom x' + "\ud55c\uae00" * 1500 + '")'
    return 'Err("boom")' if flag else "Ok(1)"


def program(idx, shape, ret, attr, msgv):
    tdef, tname, gens, where, ctor = shape_src(shape)
    rt = RET_TYPE[ret]
    generic_err = shape.startswith("generic_e") and ret in ("result", "std_result")
    if generic_err:
        rt = rt.replace("String", "E")
    arrow = "" if rt is None else " -> %s" % rt
    reply_ty = "()" if rt is None else rt
    body, _ = body_for(ret)
    if generic_err:
        body = "if flag { Err(self.e.clone()) } else { Ok(1) }"
    if msgv == "generic_extra":
        msg_def = "pub struct M<P>(pub P, pub bool);"
        msg_ty = "M<u32>"
        msg_ctor = "M(5u32, {flag})"
        flag_expr = "msg.1"
        extra = "\n        #[allow(dead_code)]\n        fn helper(&self) -> u32 { 7 }\n\n        #[allow(dead_code)]\n        pub async fn not_a_handler(&mut self, x: u32) -> u32 { x + 1 }\n"
    else:
        msg_def = "pub struct M(pub bool);"
        msg_ty = "M"
        msg_ctor = "M({flag})"
        flag_expr = "msg.0"
        extra = ""
    concrete = tname.replace("<T>", "<Vec<u8>>").replace("<E>", "<String>")
    reply_ty = reply_ty if not generic_err else rt.replace(", E>", ", String>")
    src = f"""
pub mod p{idx} {{
    #![allow(unused_imports, dead_code, clippy::all)]
    use rsactor::{{message_handlers, Actor, ActorRef}};
    pub type MyRes = std::result::Result<u32, String>;
    pub mod other {{
        pub type Result<T> = std::result::Result<T, String>;
    }}
    pub mod deep {{
        pub mod er {{
            pub mod still {{
                pub type Result<T> = std::result::Result<T, String>;
            }}
        }}
    }}
    {tdef}
    {msg_def}
    pub struct Fence;
    pub struct Quiet;
    pub struct Loud;

    #[message_handlers]
    impl{gens} {tname} {where} {{
        // neighbours of the handler under test: their options must not influence it, nor its options them
        #[handler(no_log)]
        async fn on_quiet(&mut self, _msg: Quiet, _: &ActorRef<Self>) -> Result<u32, String> {{
            Err("quiet".to_string())
        }}

        {ATTR_SRC[attr]}
        async fn on_m(&mut self, msg: {msg_ty}, _: &ActorRef<Self>){arrow} {{
            let flag = {flag_expr};
            {body}
        }}

        #[handler]
        async fn on_fence(&mut self, _msg: Fence, _: &ActorRef<Self>) -> u8 {{
            0
        }}

        #[handler]
        async fn on_loud(&mut self, _msg: Loud, _: &ActorRef<Self>) -> Result<u32, String> {{
            Err("loud".to_string())
        }}
{extra}    }}

    // the generated Reply is the declared return type; derive(Actor) is infallible
    fn _reply_is_declared(x: <{concrete} as rsactor::Message<{msg_ty}>>::Reply) -> {reply_ty.replace('other::', 'other::').replace('MyRes', 'MyRes')} {{
        x
    }}
    fn _error_is_infallible(x: <{concrete} as Actor>::Error) -> std::convert::Infallible {{
        x
    }}

    pub async fn run(out: &mut Vec<crate::Obs>) {{
        for path in ["tell", "ask"] {{
            for flag in [false, true] {{
                let args: {concrete} = {ctor};
                let (r, jh) = rsactor::spawn::<{concrete}>(args.clone());
                crate::clear_logs();
                let reply = if path == "ask" {{
                    format!("{{:?}}", r.ask({msg_ctor.format(flag='flag')}).await.expect("ask"))
                }} else {{
                    r.tell({msg_ctor.format(flag='flag')}).await.expect("tell");
                    String::new()
                }};
                let _ = r.ask(Fence).await.expect("fence");
                let logs = crate::take_logs();
                // the neighbours: a no_log Result handler stays silent, a plain Result handler logs once
                r.tell(Quiet).await.expect("tell quiet");
                let _ = r.ask(Fence).await.expect("fence");
                let quiet_logs = crate::take_logs().len();
                r.tell(Loud).await.expect("tell loud");
                let _ = r.ask(Fence).await.expect("fence");
                let loud_logs = crate::take_logs().iter().filter(|l| l.contains("loud")).count();
                let neighbours_ok = quiet_logs == 0 && loud_logs == 1;
                r.stop().await.expect("stop");
                let res = jh.await.expect("join");
                let completed = res.is_completed();
                let state_ok = res.into_actor() == Some(args) && neighbours_ok;
                out.push(crate::Obs {{ prog: {idx}, path: path.to_string(), flag, reply, logs, ident: format!("{{}}", r.identity()), msg_type: std::any::type_name::<{msg_ty}>().to_string(), completed, state_ok }});
            }}
        }}
    }}
}}
"""
    return src


RUNNER_HEAD = """// generated by tools/gen_corpus.py - do not edit
use std::sync::Mutex;

#[derive(Debug)]
pub struct Obs {
    pub prog: usize,
    pub path: String,
    pub flag: bool,
    pub reply: String,
    pub logs: Vec<String>,
    pub ident: String,
    pub msg_type: String,
    pub completed: bool,
    pub state_ok: bool,
}

static LOGS: Mutex<Vec<String>> = Mutex::new(Vec::new());
pub fn clear_logs() {
    LOGS.lock().unwrap().clear();
}
pub fn take_logs() -> Vec<String> {
    std::mem::take(&mut *LOGS.lock().unwrap())
}

struct Cap;
struct V(String);
impl tracing::field::Visit for V {
    fn record_debug(&mut self, f: &tracing::field::Field, v: &dyn std::fmt::Debug) {
        self.0.push_str(&format!(" {}={:?}", f.name(), v));
    }
}
impl tracing::Subscriber for Cap {
    fn enabled(&self, _: &tracing::Metadata<'_>) -> bool {
        true
    }
    fn new_span(&self, _: &tracing::span::Attributes<'_>) -> tracing::span::Id {
        tracing::span::Id::from_u64(1)
    }
    fn record(&self, _: &tracing::span::Id, _: &tracing::span::Record<'_>) {}
    fn record_follows_from(&self, _: &tracing::span::Id, _: &tracing::span::Id) {}
    fn event(&self, e: &tracing::Event<'_>) {
        if *e.metadata().level() == tracing::Level::ERROR {
            let mut v = V(String::new());
            e.record(&mut v);
            LOGS.lock().unwrap().push(v.0);
        }
    }
    fn enter(&self, _: &tracing::span::Id) {}
    fn exit(&self, _: &tracing::span::Id) {}
}

fn esc(s: &str) -> String {
    s.replace('\\\\', "\\\\\\\\").replace('"', "\\\\\\"").replace('\\n', " ")
}
"""


def main():
    out = sys.argv[1]
    pos_dir = os.path.join(out, "pos")
    neg_dir = os.path.join(out, "neg")
    os.makedirs(os.path.join(pos_dir, "src"), exist_ok=True)
    os.makedirs(os.path.join(neg_dir, "src", "bin"), exist_ok=True)
    for f in os.listdir(os.path.join(neg_dir, "src", "bin")):
        os.remove(os.path.join(neg_dir, "src", "bin", f))
    table = []
    pos_src = [RUNNER_HEAD]
    runs = []
    idx = 0
    for shape, ret, attr, msgv in itertools.product(SHAPES, RETS, ATTRS, MSGV):
        idx += 1
        ok = compiles(attr, ret)
        entry = {"prog": idx, "shape": shape, "ret": ret, "attr": attr, "msg": msgv, "compiles": ok, "logs": logs(attr, ret) if ok else None,
                 "expected_reply": {"false": expected_reply(ret, False), "true": expected_reply(ret, True)}, "is_result": ret in IS_RESULT}
        table.append(entry)
        src = program(idx, shape, ret, attr, msgv)
        if ok:
            pos_src.append(src)
            runs.append(idx)
        else:
            with open(os.path.join(neg_dir, "src", "bin", "n%d.rs" % idx), "w") as f:
                f.write("// generated - expected NOT to compile\n" + src + "\nfn main() {}\n#[derive(Debug)] pub struct Obs { pub prog: usize, pub path: String, pub flag: bool, pub reply: String, pub logs: Vec<String>, pub ident: String, pub msg_type: String, pub completed: bool, pub state_ok: bool }\npub fn clear_logs() {}\npub fn take_logs() -> Vec<String> { Vec::new() }\n")
    main_src = ["\nfn main() {\n    tracing::subscriber::set_global_default(Cap).unwrap();\n    let rt = tokio::runtime::Builder::new_current_thread().enable_all().build().unwrap();\n    let mut out: Vec<Obs> = Vec::new();\n    rt.block_on(async {\n"]
    for i in runs:
        main_src.append("        p%d::run(&mut out).await;\n" % i)
    main_src.append("    });\n    for o in &out {\n        let logs: Vec<String> = o.logs.iter().map(|l| format!(\"\\\"{}\\\"\", esc(l))).collect();\n        println!(\"{{\\\"prog\\\":{},\\\"path\\\":\\\"{}\\\",\\\"flag\\\":{},\\\"reply\\\":\\\"{}\\\",\\\"logs\\\":[{}],\\\"ident\\\":\\\"{}\\\",\\\"msg_type\\\":\\\"{}\\\",\\\"completed\\\":{},\\\"state_ok\\\":{}}}\", o.prog, o.path, o.flag, esc(&o.reply), logs.join(\",\"), esc(&o.ident), esc(&o.msg_type), o.completed, o.state_ok);\n    }\n}\n")
    with open(os.path.join(pos_dir, "src", "main.rs"), "w") as f:
        f.write("".join(pos_src) + "".join(main_src))
    cargo = """[package]
name = "%s"
version = "0.1.0"
edition = "2021"
publish = false

[dependencies]
rsactor = { path = "/repo" }
tokio = { version = "1", features = ["macros", "rt", "sync", "time"] }
tracing = "0.1"

[workspace]
"""
    with open(os.path.join(pos_dir, "Cargo.toml"), "w") as f:
        f.write(cargo % "corpus_pos")
    with open(os.path.join(neg_dir, "Cargo.toml"), "w") as f:
        f.write(cargo % "corpus_neg")
    json.dump(table, open(os.path.join(out, "table.json"), "w"), indent=0)
    print("programs: %d (expected to compile: %d, expected to be rejected: %d)" % (len(table), len(runs), len(table) - len(runs)))


if __name__ == "__main__":
    main()
