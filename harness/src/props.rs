//! Per property: the bounded scenario grammar that is enumerated, and the oracle applied to every execution.

use crate::explore::Violation;
use crate::model::*;
use crate::mon;

pub struct Prop {
    pub id: &'static str,
    pub gen: fn(u8) -> Vec<Scenario>,
    /// grammar size used by the quick / thorough tier (0 small, 1 medium, 2 large)
    pub quick_level: u8,
    pub thorough_level: u8,
    pub monitor: fn(&Scenario, &[Ev]) -> Vec<Violation>,
    /// deviation bound per tier (None = whole tree)
    pub bound_quick: Option<u32>,
    pub bound_thorough: Option<u32>,
    pub max_execs_quick: u64,
    pub max_execs_thorough: u64,
    /// harness features this property needs
    pub features: &'static str,
}

const QL_C01: u8 = 0;
const TL_C01: u8 = 2;
const QL_C02: u8 = 0;
const TL_C02: u8 = 2;
const QL_C03: u8 = 0;
const TL_C03: u8 = 1;
const QL_C04: u8 = 1;
const TL_C04: u8 = 2;
const QL_C05: u8 = 1;
const TL_C05: u8 = 2;
const QL_C06: u8 = 1;
const TL_C06: u8 = 2;
const QL_C07: u8 = 0;
const TL_C07: u8 = 1;
const QL_C08: u8 = 1;
const TL_C08: u8 = 2;
const QL_C09: u8 = 1;
const TL_C09: u8 = 2;
const QL_C10: u8 = 1;
const TL_C10: u8 = 2;
const QL_C11: u8 = 1;
const TL_C11: u8 = 2;
const QL_C12: u8 = 0;
const TL_C12: u8 = 1;
const QL_C13: u8 = 1;
const TL_C13: u8 = 2;
const QL_C14: u8 = 0;
const TL_C14: u8 = 1;
const QL_C15: u8 = 0;
const TL_C15: u8 = 1;
const QL_C18: u8 = 0;
const TL_C18: u8 = 0;
const QL_C19: u8 = 0;
const TL_C19: u8 = 1;
const QL_C20: u8 = 0;
const TL_C20: u8 = 1;

pub fn all() -> Vec<Prop> {
    vec![
        Prop { id: "C01", gen: gen_c01, monitor: mon::c01, quick_level: QL_C01, thorough_level: TL_C01, bound_quick: None, bound_thorough: None, max_execs_quick: 50_000, max_execs_thorough: 1_000_000, features: "" },
        Prop { id: "C02", gen: gen_c02, monitor: mon::c02, quick_level: QL_C02, thorough_level: TL_C02, bound_quick: None, bound_thorough: None, max_execs_quick: 50_000, max_execs_thorough: 1_000_000, features: "" },
        Prop { id: "C03", gen: gen_c03, monitor: mon::c03, quick_level: QL_C03, thorough_level: TL_C03, bound_quick: None, bound_thorough: None, max_execs_quick: 50_000, max_execs_thorough: 1_000_000, features: "" },
        Prop { id: "C04", gen: gen_c04, monitor: mon::c04, quick_level: QL_C04, thorough_level: TL_C04, bound_quick: None, bound_thorough: None, max_execs_quick: 50_000, max_execs_thorough: 1_000_000, features: "" },
        Prop { id: "C05", gen: gen_c04, monitor: mon::c05, quick_level: QL_C05, thorough_level: TL_C05, bound_quick: None, bound_thorough: None, max_execs_quick: 50_000, max_execs_thorough: 1_000_000, features: "" },
        Prop { id: "C06", gen: gen_c06, monitor: mon::c06, quick_level: QL_C06, thorough_level: TL_C06, bound_quick: None, bound_thorough: None, max_execs_quick: 50_000, max_execs_thorough: 1_000_000, features: "" },
        Prop { id: "C07", gen: gen_c07, monitor: mon::c07, quick_level: QL_C07, thorough_level: TL_C07, bound_quick: None, bound_thorough: None, max_execs_quick: 50_000, max_execs_thorough: 1_000_000, features: "" },
        Prop { id: "C08", gen: gen_c08, monitor: mon::c08, quick_level: QL_C08, thorough_level: TL_C08, bound_quick: None, bound_thorough: None, max_execs_quick: 50_000, max_execs_thorough: 1_000_000, features: "" },
        Prop { id: "C09", gen: gen_c09, monitor: mon::c09, quick_level: QL_C09, thorough_level: TL_C09, bound_quick: None, bound_thorough: None, max_execs_quick: 50_000, max_execs_thorough: 1_000_000, features: "" },
        Prop { id: "C10", gen: gen_c10, monitor: mon::c10, quick_level: QL_C10, thorough_level: TL_C10, bound_quick: None, bound_thorough: None, max_execs_quick: 50_000, max_execs_thorough: 1_000_000, features: "" },
        Prop { id: "C11", gen: gen_c11, monitor: mon::c11, quick_level: QL_C11, thorough_level: TL_C11, bound_quick: None, bound_thorough: None, max_execs_quick: 50_000, max_execs_thorough: 1_000_000, features: "" },
        Prop { id: "C14", gen: gen_c14, monitor: mon::c14, quick_level: QL_C14, thorough_level: TL_C14, bound_quick: None, bound_thorough: None, max_execs_quick: 50_000, max_execs_thorough: 1_000_000, features: "f_deadlock" },
        Prop { id: "C15", gen: gen_c15, monitor: mon::c15, quick_level: QL_C15, thorough_level: TL_C15, bound_quick: None, bound_thorough: None, max_execs_quick: 50_000, max_execs_thorough: 1_000_000, features: "f_deadlock" },
        Prop { id: "C20", gen: gen_c20, monitor: mon::c20, quick_level: QL_C20, thorough_level: TL_C20, bound_quick: Some(2), bound_thorough: Some(3), max_execs_quick: 2_000, max_execs_thorough: 6_000, features: "f_metrics" },
        Prop { id: "C18", gen: gen_c18, monitor: mon::none, quick_level: QL_C18, thorough_level: TL_C18, bound_quick: None, bound_thorough: None, max_execs_quick: 3_000, max_execs_thorough: 3_000, features: "" },
        Prop { id: "C12", gen: gen_c12, monitor: mon::c12, quick_level: QL_C12, thorough_level: TL_C12, bound_quick: None, bound_thorough: None, max_execs_quick: 10_000, max_execs_thorough: 200_000, features: "f_deadlock,f_metrics,f_testutils,f_tracing" },
        Prop { id: "C19", gen: gen_c19, monitor: mon::c19rt, quick_level: QL_C19, thorough_level: TL_C19, bound_quick: None, bound_thorough: None, max_execs_quick: 10_000, max_execs_thorough: 200_000, features: "" },
        Prop { id: "C13", gen: gen_c13, monitor: mon::c13, quick_level: QL_C13, thorough_level: TL_C13, bound_quick: None, bound_thorough: None, max_execs_quick: 50_000, max_execs_thorough: 1_000_000, features: "f_testutils" },
    ]
}

// ------------------------------------------------------------------ small builders

/// Adds, for every scenario, the variant in which no client yields between its operations
/// (operations of one program run back to back unless they really wait).
fn with_fused(v: Vec<Scenario>) -> Vec<Scenario> {
    let mut out = Vec::with_capacity(v.len() * 2);
    for s in v {
        let multi = s.clients.iter().any(|c| c.auto_yield && c.steps.iter().filter(|x| !matches!(x, Step::Fuse)).count() > 1);
        if multi {
            let mut f = s.clone();
            f.name.push_str("+fused");
            for c in f.clients.iter_mut() {
                c.auto_yield = false;
            }
            out.push(s);
            out.push(f);
        } else {
            out.push(s);
        }
    }
    out
}

struct Ids(u32);
impl Ids {
    fn next(&mut self) -> u32 {
        self.0 += 1;
        self.0
    }
}

fn send(kind: SendKind, slot: u8, msg: MsgSpec) -> Step {
    Step::Send { kind, slot, msg }
}

fn scn(name: String, actors: Vec<ActorSpec>, clients: Vec<Program>, tags: &[&str]) -> Scenario {
    Scenario { name, actors, clients, registry: false, seed: 0, tags: tags.iter().map(|s| s.to_string()).collect() }
}

fn gated(out: Outcome) -> HookSpec {
    HookSpec { entry_yield: true, steps: vec![], out, free: false }
}

/// Assign fresh message ids to every Send in a program template (templates use id 0).
fn number(p: &mut Program, ids: &mut Ids) {
    for s in p.steps.iter_mut() {
        if let Step::Send { msg, .. } = s {
            if msg.id == 0 {
                msg.id = ids.next();
            }
        }
    }
}

/// All sequences over `alpha` with length in 1..=max.
fn seqs<T: Clone>(alpha: &[T], max: usize) -> Vec<Vec<T>> {
    let mut out: Vec<Vec<T>> = Vec::new();
    let mut cur: Vec<Vec<T>> = vec![vec![]];
    for _ in 0..max {
        let mut nxt = Vec::new();
        for c in &cur {
            for a in alpha {
                let mut n = c.clone();
                n.push(a.clone());
                nxt.push(n);
            }
        }
        out.extend(nxt.iter().cloned());
        cur = nxt;
    }
    out
}

// ------------------------------------------------------------------ C01 / C02: delivery and order

#[derive(Clone, Copy, PartialEq, Eq, Debug, PartialOrd, Ord)]
enum DOp {
    Tell,
    Ask,
    TellTO,
    AskTO,
    Stop,
    Drop,
    CloneDrop,
}

fn dop_steps(op: DOp, slow: bool, fuse_next: bool) -> Vec<Step> {
    let body = if slow { vec![Step::Sleep(20)] } else { vec![] };
    let m = MsgSpec::m1(0).steps(body);
    let mut v = match op {
        DOp::Tell => vec![send(SendKind::Tell, 0, m)],
        DOp::Ask => vec![send(SendKind::Ask, 0, m)],
        DOp::TellTO => vec![send(SendKind::TellTO(10), 0, m)],
        DOp::AskTO => vec![send(SendKind::AskTO(10), 0, m)],
        DOp::Stop => vec![Step::Stop(0)],
        DOp::Drop => vec![Step::DropH(0)],
        DOp::CloneDrop => vec![Step::CloneH { from: 0, to: 1 }, Step::Fuse, Step::DropH(0)],
    };
    if fuse_next {
        v.push(Step::Fuse);
    }
    v
}

fn delivery_scenarios(lvl: u8, tag: &str) -> Vec<Scenario> {
    let thorough = lvl >= 1;
    let xl = lvl >= 2;
    let alpha = [DOp::Tell, DOp::Ask, DOp::TellTO, DOp::AskTO, DOp::Stop, DOp::Drop];
    let max_total = if xl { 6 } else if thorough { 5 } else { 4 };
    let progs = seqs(&alpha, 3);
    let mut out = Vec::new();
    let mut n = 0;
    for cap in [1usize, 2, 8] {
        for slow in [false, true] {
            // two clients
            for (i, p1) in progs.iter().enumerate() {
                for p2 in progs.iter().skip(i) {
                    if p1.len() + p2.len() > max_total || p1.len() + p2.len() < 2 {
                        continue;
                    }
                    // an op after Drop has no handle: skip programs that use the handle after dropping it
                    if uses_after_drop(p1) || uses_after_drop(p2) {
                        continue;
                    }
                    // timeouts only matter with slow handlers
                    let has_to = p1.iter().chain(p2.iter()).any(|o| matches!(o, DOp::TellTO | DOp::AskTO));
                    if has_to != slow {
                        continue;
                    }
                    // capacity 8 exceeds every program: acceptance of an ask is then known at its start ("roomy")
                    let has_ask = p1.iter().chain(p2.iter()).any(|o| matches!(o, DOp::Ask | DOp::AskTO));
                    if cap == 8 && !has_ask {
                        continue;
                    }
                    let mut ids = Ids(0);
                    let mut clients = Vec::new();
                    for p in [p1, p2] {
                        let mut steps = Vec::new();
                        for (k, o) in p.iter().enumerate() {
                            // "dropped immediately after the send returns": fuse a send with a following Drop
                            let fuse = matches!(p.get(k + 1), Some(DOp::Drop)) && matches!(o, DOp::Tell | DOp::TellTO);
                            steps.extend(dop_steps(*o, slow, fuse));
                        }
                        let mut prog = Program::new(vec![(0, 0)], steps);
                        number(&mut prog, &mut ids);
                        clients.push(prog);
                    }
                    let mut a = ActorSpec::plain(cap);
                    a.on_start = gated(Outcome::Ok);
                    n += 1;
                    let tags: &[&str] = if cap == 8 { &["roomy"] } else { &[] };
                    out.push(scn(format!("{tag}-{n}-cap{cap}-{p1:?}|{p2:?}{}", if slow { "-slow" } else { "" }), vec![a], clients, tags));
                }
            }
        }
    }
    // three senders queued for one slot, one of them with the stop
    for third in [DOp::Tell, DOp::Stop, DOp::Ask] {
        for slow in [false] {
            let mut ids = Ids(0);
            let mut clients = Vec::new();
            for p in [vec![DOp::Tell, DOp::Tell], vec![DOp::Tell, DOp::Drop], vec![third, DOp::Drop]] {
                let mut steps = Vec::new();
                for (k, o) in p.iter().enumerate() {
                    let fuse = matches!(p.get(k + 1), Some(DOp::Drop)) && matches!(o, DOp::Tell);
                    steps.extend(dop_steps(*o, slow, fuse));
                }
                let mut prog = Program::new(vec![(0, 0)], steps);
                number(&mut prog, &mut ids);
                clients.push(prog);
            }
            let mut a = ActorSpec::plain(1);
            a.on_start = gated(Outcome::Ok);
            n += 1;
            out.push(scn(format!("{tag}-{n}-3senders-{third:?}"), vec![a], clients, &[]));
        }
    }
    // a handler that panics while its asker waits: the ask fails, but never with the error that promises "not handled"
    for cap in [1usize, 2] {
        for kind in [SendKind::Ask, SendKind::AskTO(30)] {
            let mut ids = Ids(0);
            let boom = MsgSpec::m1(ids.next()).steps(vec![Step::Yield]).out(Outcome::Panic(9));
            let c0 = Program::new(vec![(0, 0)], vec![send(kind, 0, boom)]);
            let c1 = Program::new(vec![(0, 0)], vec![send(SendKind::Ask, 0, MsgSpec::m1(ids.next())), send(SendKind::Tell, 0, MsgSpec::m1(ids.next()))]);
            let mut a = ActorSpec::plain(cap);
            a.on_start = gated(Outcome::Ok);
            n += 1;
            out.push(scn(format!("{tag}-{n}-handler-panics-cap{cap}-{kind:?}"), vec![a], vec![c0, c1], &[]));
        }
    }
    // a backlog far beyond any batch size (1100, 3000 messages) that builds up while the actor starts, then stop() or the
    // last reference dropped: every single message is handled, once, in order
    for nmsg in if thorough { vec![1100usize, 3000] } else { vec![1100usize] } {
        for ending in 0..2 {
            let mut ids = Ids(0);
            let mut a = ActorSpec::plain(nmsg + 1);
            a.free_handlers = true;
            a.on_start = gated(Outcome::Ok);
            let mut steps: Vec<Step> = Vec::new();
            for _ in 0..nmsg {
                steps.push(send(SendKind::Tell, 0, MsgSpec::quick(ids.next())));
            }
            steps.push(if ending == 0 { Step::Stop(0) } else { Step::DropH(0) });
            let c0 = Program { slots: vec![(0, 0)], steps, auto_yield: false, free: false };
            n += 1;
            out.push(scn(format!("{tag}-{n}-backlog-of-{nmsg}-then-{}", if ending == 0 { "stop" } else { "drop" }), vec![a], vec![c0], &[]));
        }
    }
    // an ask through a type-erased handle with a stop() right behind it: the actor answers and ends before the asker
    // is polled again, which then finds its reply and a closed mailbox at the same time (several tokio rng seeds)
    for seed in 0..6u64 {
        for cap in [1usize, 2] {
            let mut ids = Ids(0);
            let a = ActorSpec::plain(cap);
            let c0 = Program::new(
                vec![(0, 0)],
                vec![Step::Erase { from: 0, to: 1, kind: EraseKind::Ask, owned: false }, Step::Fuse, send(SendKind::Ask, 1, MsgSpec::quick(ids.next()))],
            );
            let c1 = Program::new(vec![(0, 0)], vec![Step::Stop(0)]);
            n += 1;
            let mut sc = scn(format!("{tag}-{n}-erased-ask-then-stop-cap{cap}-seed{seed}"), vec![a], vec![c0, c1], &[]);
            sc.seed = seed;
            out.push(sc);
        }
    }
    // the last external reference travels inside a queued message
    {
        let mut ids = Ids(0);
        let mut m = MsgSpec::m1(ids.next());
        m.carry = Some((1, None));
        let prog = Program::new(
            vec![(0, 0)],
            vec![
                send(SendKind::Tell, 0, MsgSpec::m1(ids.next())),
                Step::CloneH { from: 0, to: 1 },
                send(SendKind::Tell, 0, m),
                Step::Fuse,
                Step::DropH(0),
            ],
        );
        let mut a = ActorSpec::plain(2);
        a.on_start = gated(Outcome::Ok);
        n += 1;
        out.push(scn(format!("{tag}-{n}-ref-in-message"), vec![a], vec![prog], &[]));
    }
    out
}

fn uses_after_drop(p: &[DOp]) -> bool {
    match p.iter().position(|o| *o == DOp::Drop) {
        Some(i) => i + 1 < p.len(),
        None => false,
    }
}

fn gen_c01(lvl: u8) -> Vec<Scenario> {
    let thorough = lvl >= 1;
    let xl = lvl >= 2;
    let _ = xl;
    with_fused(delivery_scenarios(lvl, "c01"))
}

fn gen_c02(lvl: u8) -> Vec<Scenario> {
    let thorough = lvl >= 1;
    let xl = lvl >= 2;
    let _ = xl;
    let mut v = delivery_scenarios(lvl, "c02");
    // erased routes: the same traffic through TellHandler / AskHandler boxes
    let mut ids = Ids(0);
    let p1 = Program::new(
        vec![(0, 0)],
        vec![
            Step::Erase { from: 0, to: 1, kind: EraseKind::Tell, owned: false },
            Step::Fuse,
            Step::Erase { from: 0, to: 2, kind: EraseKind::Ask, owned: false },
            Step::Fuse,
            send(SendKind::Tell, 1, MsgSpec::m1(ids.next())),
            send(SendKind::Ask, 2, MsgSpec::m1(ids.next())),
            send(SendKind::Tell, 0, MsgSpec::m1(ids.next())),
        ],
    );
    let p2 = Program::new(vec![(0, 0)], vec![send(SendKind::Tell, 0, MsgSpec::m1(ids.next())), Step::Stop(0)]);
    let mut a = ActorSpec::plain(1);
    a.on_start = gated(Outcome::Ok);
    v.push(scn("c02-erased".into(), vec![a], vec![p1, p2], &[]));
    // a stop() whose caller gave up while it waited for a slot; later a stop() that returns Ok, and a tell after it
    for cap in [1usize, 2] {
        for erased in [false, true] {
            let mut ids = Ids(0);
            let a = ActorSpec::plain(cap);
            let mut slow = MsgSpec::m1(ids.next()).steps(vec![Step::Sleep(20)]);
            slow.entry_yield = false;
            let mut tells = vec![send(SendKind::Tell, 0, slow)];
            for _ in 0..cap {
                tells.push(send(SendKind::Tell, 0, MsgSpec::quick(ids.next())));
            }
            let c0 = Program { slots: vec![(0, 0)], steps: tells, auto_yield: false, free: false };
            let mut later = vec![Step::Sleep(1), Step::StopCancel { slot: 0, ms: 10 }, Step::Sleep(30)];
            if erased {
                later.push(Step::Erase { from: 0, to: 1, kind: EraseKind::Ctl, owned: false });
                later.push(Step::Fuse);
                later.push(Step::Stop(1));
            } else {
                later.push(Step::Stop(0));
            }
            later.push(send(SendKind::Tell, 0, MsgSpec::m1(ids.next())));
            later.push(send(SendKind::Ask, 0, MsgSpec::m1(ids.next())));
            let c1 = Program::new(vec![(0, 0)], later);
            v.push(scn(format!("c02-stop-after-abandoned-stop-cap{cap}-erased{erased}"), vec![a], vec![c0, c1], &[]));
        }
    }
    // a long backlog with the stop request in the middle of it (40 tells, stop(), 70 more tells - all accepted while
    // the actor is still starting): what was accepted before the stop is handled, nothing behind it is
    for (before, after) in if thorough { vec![(40usize, 70usize), (10, 100), (64, 64)] } else { vec![(40usize, 70usize)] } {
        let mut ids = Ids(0);
        let mut a = ActorSpec::plain(before + after + 1);
        a.free_handlers = true;
        a.on_start = gated(Outcome::Ok);
        let mut steps: Vec<Step> = Vec::new();
        for _ in 0..before {
            steps.push(send(SendKind::Tell, 0, MsgSpec::quick(ids.next())));
        }
        steps.push(Step::Stop(0));
        for _ in 0..after {
            steps.push(send(SendKind::Tell, 0, MsgSpec::quick(ids.next())));
        }
        let c0 = Program { slots: vec![(0, 0)], steps, auto_yield: false, free: false };
        v.push(scn(format!("c02-stop-in-the-middle-of-a-backlog-{before}-{after}"), vec![a], vec![c0], &[]));
    }
    with_fused(v)
}

// ------------------------------------------------------------------ C03: replies and completion

fn gen_c03(lvl: u8) -> Vec<Scenario> {
    let thorough = lvl >= 1;
    let xl = lvl >= 2;
    let _ = xl;
    let mut out = Vec::new();
    let mut n = 0;
    // termination causes injected while asks are queued / in flight / waiting for a slot
    #[derive(Clone, Copy, Debug)]
    enum Cause {
        Stop,
        Kill,
        Drop,
        StartErr,
        StartPanic,
        RunErr,
        HandlerPanic,
        RunPanic,
        StopPanic,
        StopErr,
        None,
    }
    let causes = [
        Cause::None,
        Cause::Stop,
        Cause::Kill,
        Cause::Drop,
        Cause::StartErr,
        Cause::StartPanic,
        Cause::RunErr,
        Cause::HandlerPanic,
        Cause::RunPanic,
        Cause::StopPanic,
        Cause::StopErr,
    ];
    let ask_kinds: Vec<(SendKind, MsgKind)> = vec![
        (SendKind::Ask, MsgKind::M1),
        (SendKind::AskTO(30), MsgKind::M1),
        (SendKind::Ask, MsgKind::M2),
        (SendKind::AskJoin, MsgKind::MJ),
    ];
    for cap in [1usize, 2] {
        for cause in causes {
            for (k1, mk1) in &ask_kinds {
                for (k2, mk2) in &ask_kinds {
                    if !thorough && cap == 2 && !matches!(cause, Cause::None | Cause::Kill | Cause::HandlerPanic) {
                        continue;
                    }
                    let mut ids = Ids(0);
                    let mut a = ActorSpec::plain(cap);
                    a.on_start = gated(match cause {
                        Cause::StartErr => Outcome::Err(1),
                        Cause::StartPanic => Outcome::Panic(1),
                        _ => Outcome::Ok,
                    });
                    match cause {
                        Cause::RunErr => a.on_run = vec![HookSpec { entry_yield: false, steps: vec![Step::Yield], out: Outcome::Err(2), free: false }],
                        Cause::RunPanic => a.on_run = vec![HookSpec { entry_yield: false, steps: vec![Step::Yield], out: Outcome::Panic(2), free: false }],
                        _ => {}
                    }
                    a.on_stop = gated(match cause {
                        Cause::StopPanic => Outcome::Panic(3),
                        Cause::StopErr => Outcome::Err(3),
                        _ => Outcome::Ok,
                    });
                    let mut m1 = MsgSpec::m1(ids.next()).kind(mk1.clone());
                    if matches!(cause, Cause::HandlerPanic) {
                        m1 = m1.out(Outcome::Panic(4));
                    }
                    let m2 = MsgSpec::m1(ids.next()).kind(mk2.clone());
                    let m3 = MsgSpec::m1(ids.next());
                    let c0 = Program::new(vec![(0, 0)], vec![send(*k1, 0, m1)]);
                    let c1 = Program::new(vec![(0, 0)], vec![send(*k2, 0, m2), send(SendKind::Ask, 0, m3)]);
                    let c2 = Program::new(
                        vec![(0, 0)],
                        match cause {
                            Cause::Stop | Cause::StopPanic | Cause::StopErr => vec![Step::Stop(0)],
                            Cause::Kill => vec![Step::Kill(0)],
                            _ => vec![Step::DropH(0)],
                        },
                    );
                    n += 1;
                    let tags: &[&str] = if matches!(cause, Cause::Drop | Cause::None) { &[] } else { &["allcomplete"] };
                    out.push(scn(format!("c03-{n}-cap{cap}-{cause:?}-{k1:?}/{mk1:?}-{k2:?}/{mk2:?}"), vec![a], vec![c0, c1, c2], tags));
                }
            }
        }
    }
    // ask_join task outcomes
    for end in [TaskEnd::Value, TaskEnd::Panic, TaskEnd::Abort] {
        let mut ids = Ids(0);
        let mut m = MsgSpec::m1(ids.next()).kind(MsgKind::MJ).steps(vec![Step::Yield]);
        m.task_end = end.clone();
        let c0 = Program::new(vec![(0, 0)], vec![send(SendKind::AskJoin, 0, m)]);
        let c1 = Program::new(vec![(0, 0)], vec![send(SendKind::Ask, 0, MsgSpec::m1(ids.next())), Step::Stop(0)]);
        n += 1;
        out.push(scn(format!("c03-{n}-askjoin-{end:?}"), vec![ActorSpec::plain(2)], vec![c0, c1], &["allcomplete"]));
    }
    // two actors, crossed askers
    {
        let mut ids = Ids(0);
        let c0 = Program::new(vec![(0, 0), (1, 1)], vec![send(SendKind::Ask, 0, MsgSpec::m1(ids.next())), send(SendKind::Ask, 1, MsgSpec::m1(ids.next()))]);
        let c1 = Program::new(vec![(0, 1), (1, 0)], vec![send(SendKind::Ask, 0, MsgSpec::m1(ids.next())), send(SendKind::Ask, 1, MsgSpec::m1(ids.next()))]);
        let c2 = Program::new(vec![(0, 0), (1, 1)], vec![Step::Kill(0), Step::Stop(1)]);
        n += 1;
        out.push(scn(format!("c03-{n}-two-actors"), vec![ActorSpec::plain(1), ActorSpec::plain(1)], vec![c0, c1, c2], &["allcomplete"]));
    }
    with_fused(out)
}

// ------------------------------------------------------------------ C04 / C05: lifecycle

fn gen_c04(lvl: u8) -> Vec<Scenario> {
    let thorough = lvl >= 1;
    let xl = lvl >= 2;
    let _ = xl;
    let mut out = Vec::new();
    let mut n = 0;
    #[derive(Clone, Copy, Debug, PartialEq, Eq, PartialOrd, Ord)]
    enum L {
        Tell,
        Ask,
        Stop,
        Kill,
        Drop,
    }
    let alpha = [L::Tell, L::Stop, L::Kill, L::Drop, L::Ask];
    let mut progs: Vec<Vec<L>> = seqs(&alpha, if xl { 3 } else { 2 });
    progs.retain(|p| match p.iter().position(|o| *o == L::Drop) {
        Some(i) => i + 1 == p.len(),
        None => true,
    });
    let starts = [Outcome::Ok, Outcome::Err(11), Outcome::Panic(12)];
    let runs: Vec<Vec<HookSpec>> = vec![
        vec![],
        vec![HookSpec { entry_yield: false, steps: vec![Step::Mark(1), Step::Yield], out: Outcome::OkTrue, free: false }, HookSpec { entry_yield: false, steps: vec![Step::Yield], out: Outcome::OkFalse, free: false }],
        vec![HookSpec { entry_yield: false, steps: vec![Step::Yield], out: Outcome::Err(21), free: false }],
        vec![HookSpec { entry_yield: false, steps: vec![Step::Yield], out: Outcome::Panic(22), free: false }],
        vec![HookSpec { entry_yield: false, steps: vec![Step::Yield], out: Outcome::OkTrue, free: false }, HookSpec { entry_yield: false, steps: vec![Step::Yield], out: Outcome::Err(23), free: false }],
    ];
    let stops = [Outcome::Ok, Outcome::Err(31), Outcome::Panic(32)];
    for start in &starts {
        for (ri, run) in runs.iter().enumerate() {
            for stop in &stops {
                if *start != Outcome::Ok && (ri != 0 || *stop != Outcome::Ok) {
                    continue;
                }
                for hpanic in [false, true] {
                    for (i, p1) in progs.iter().enumerate() {
                        for p2 in progs.iter().skip(i) {
                            if !thorough && p1.len() + p2.len() > 3 {
                                continue;
                            }
                            if p1.len() + p2.len() > 4 {
                                continue;
                            }
                            let has_msg = p1.iter().chain(p2.iter()).any(|o| matches!(o, L::Tell | L::Ask));
                            if hpanic && !has_msg {
                                continue;
                            }
                            if !thorough && hpanic && (ri != 0 || *stop != Outcome::Ok) {
                                continue;
                            }
                            let mut ids = Ids(0);
                            let mut clients = Vec::new();
                            for p in [p1, p2] {
                                let mut steps = Vec::new();
                                for o in p {
                                    let mut m = MsgSpec::m1(ids.next()).steps(vec![Step::Yield]);
                                    if hpanic && m.id == 1 {
                                        m = m.out(Outcome::Panic(41));
                                    }
                                    steps.push(match o {
                                        L::Tell => send(SendKind::Tell, 0, m),
                                        L::Ask => send(SendKind::Ask, 0, m),
                                        L::Stop => Step::Stop(0),
                                        L::Kill => Step::Kill(0),
                                        L::Drop => Step::DropH(0),
                                    });
                                }
                                clients.push(Program::new(vec![(0, 0)], steps));
                            }
                            let mut a = ActorSpec::plain(2);
                            a.on_start = gated(start.clone());
                            a.on_run = run.clone();
                            a.on_stop = gated(stop.clone());
                            n += 1;
                            out.push(scn(format!("c04-{n}-{start:?}-run{ri}-{stop:?}-hp{hpanic}-{p1:?}|{p2:?}"), vec![a], clients, &[]));
                        }
                    }
                }
            }
        }
    }
    // hooks that take long - 40 s, 5 min, 2 h of virtual time - and errors whose text is several kilobytes of
    // multi-byte characters: the lifecycle and its result are the same as with quick hooks and small errors
    for slow in [40_000u32, 300_000, 7_200_000] {
        for stop_out in [Outcome::Ok, Outcome::Err(31), Outcome::Err(9001)] {
            for cause in 0..4 {
                let mut ids = Ids(0);
                let mut a = ActorSpec::plain(2);
                a.on_stop = HookSpec { entry_yield: true, steps: vec![Step::Sleep(slow)], out: stop_out.clone(), free: false };
                let mut steps = vec![send(SendKind::Tell, 0, MsgSpec::quick(ids.next()))];
                match cause {
                    0 => steps.push(Step::Stop(0)),
                    1 => steps.push(Step::Kill(0)),
                    2 => steps.push(Step::DropH(0)),
                    _ => {
                        a.on_run = vec![HookSpec { entry_yield: false, steps: vec![Step::Sleep(slow)], out: Outcome::Err(9002), free: false }];
                    }
                }
                let c0 = Program::new(vec![(0, 0)], steps);
                n += 1;
                out.push(scn(format!("c04-{n}-slow-hooks-{slow}ms-{stop_out:?}-cause{cause}"), vec![a], vec![c0], &[]));
            }
        }
    }
    for start_out in [Outcome::Err(9000), Outcome::Err(9003)] {
        let mut a = ActorSpec::plain(2);
        a.on_start = HookSpec { entry_yield: true, steps: vec![Step::Sleep(60_000)], out: start_out.clone(), free: false };
        let c0 = Program::new(vec![(0, 0)], vec![send(SendKind::Tell, 0, MsgSpec::quick(1))]);
        n += 1;
        out.push(scn(format!("c04-{n}-slow-start-{start_out:?}"), vec![a], vec![c0], &[]));
    }
    out
}

// ------------------------------------------------------------------ C06: kill

fn gen_c06(lvl: u8) -> Vec<Scenario> {
    let thorough = lvl >= 1;
    let xl = lvl >= 2;
    let _ = xl;
    let mut out = Vec::new();
    let mut n = 0;
    let seeds: Vec<u64> = if thorough { (0..8).collect() } else { (0..4).collect() };
    #[derive(Clone, Copy, Debug)]
    enum Phase {
        Start,
        Handler,
        RunBody,
        Idle,
    }
    #[derive(Clone, Copy, Debug)]
    enum K {
        Once,
        Twice,
        ViaCtl,
        ThenTell,
    }
    #[derive(Clone, Copy, Debug)]
    enum Third {
        None,
        Stop,
        Drop,
    }
    for seed in &seeds {
        for cap in [1usize, 2, 3] {
            for phase in [Phase::Start, Phase::Handler, Phase::RunBody, Phase::Idle] {
                for extra in [0usize, 1, 2] {
                    // number of tells = cap + extra - 1 (extra=0: one slot free; 1: exactly full; 2: one sender waits)
                    let ntell = cap + extra - if extra == 0 { 1 } else { 1 };
                    for k in [K::Once, K::Twice, K::ViaCtl, K::ThenTell] {
                        for third in [Third::None, Third::Stop, Third::Drop] {
                            if !thorough {
                                // quick tier: thin out the product, keep every value of every dimension
                                let sel = (cap + extra + (*seed as usize)) % 3;
                                let keep = match (k, third) {
                                    (K::Once, Third::None) => true,
                                    (K::Twice, Third::Stop) => sel == 0,
                                    (K::ViaCtl, Third::Drop) => sel == 1,
                                    (K::ThenTell, Third::None) => sel == 2,
                                    (K::Once, Third::Stop) => sel == 1,
                                    (K::Once, Third::Drop) => sel == 0,
                                    _ => false,
                                };
                                if !keep {
                                    continue;
                                }
                            }
                            let mut ids = Ids(0);
                            let mut a = ActorSpec::plain(cap);
                            match phase {
                                Phase::Start => a.on_start = gated(Outcome::Ok),
                                Phase::RunBody => {
                                    a.on_run = vec![
                                        HookSpec { entry_yield: false, steps: vec![Step::Mark(1), Step::Yield, Step::Mark(2), Step::Yield, Step::Mark(3)], out: Outcome::OkTrue, free: false },
                                        HookSpec { entry_yield: false, steps: vec![Step::Mark(4), Step::Yield, Step::Mark(5)], out: Outcome::OkTrue, free: false },
                                        HookSpec { entry_yield: false, steps: vec![Step::Mark(6)], out: Outcome::Pend, free: false },
                                    ]
                                }
                                _ => {}
                            }
                            a.on_stop = gated(Outcome::Ok);
                            let mut tells = Vec::new();
                            for i in 0..ntell {
                                let body = match phase {
                                    Phase::Handler if i == 0 => vec![Step::Yield, Step::Yield],
                                    _ => vec![],
                                };
                                let mut m = MsgSpec::m1(ids.next()).steps(body);
                                // queued messages behind the first are handled without a scheduling point of their own,
                                // so that a loop that prefers the mailbox over the kill signal handles several at once
                                if i > 0 {
                                    m.entry_yield = false;
                                }
                                tells.push(send(if i % 2 == 1 { SendKind::Ask } else { SendKind::Tell }, 0, m));
                            }
                            let c0 = Program::new(vec![(0, 0)], tells);
                            let c1 = Program::new(
                                vec![(0, 0)],
                                match k {
                                    K::Once => vec![Step::Kill(0)],
                                    K::Twice => vec![Step::Kill(0), Step::Kill(0)],
                                    K::ViaCtl => vec![Step::Erase { from: 0, to: 1, kind: EraseKind::Ctl, owned: false }, Step::Kill(1)],
                                    K::ThenTell => vec![Step::Kill(0), send(SendKind::Tell, 0, MsgSpec::quick(ids.next()))],
                                },
                            );
                            let mut clients = vec![c0, c1];
                            match third {
                                Third::None => {}
                                Third::Stop => clients.push(Program::new(vec![(0, 0)], vec![Step::Stop(0)])),
                                Third::Drop => clients.push(Program::new(vec![(0, 0)], vec![Step::DropH(0)])),
                            }
                            n += 1;
                            let mut s = scn(format!("c06-{n}-seed{seed}-cap{cap}-{phase:?}-x{extra}-{k:?}-{third:?}"), vec![a], clients, &[]);
                            s.seed = *seed;
                            out.push(s);
                        }
                    }
                }
            }
        }
        // a backlog of four messages of which the k-th is the slow one: the kill can land during ANY handler of the backlog
        for slow_idx in 0..3usize {
            for gate_first in [false, true] {
                let mut ids = Ids(0);
                let mut a = ActorSpec::plain(4);
                if gate_first {
                    a.on_start = gated(Outcome::Ok);
                }
                a.on_stop = gated(Outcome::Ok);
                let mut tells = Vec::new();
                for i in 0..4usize {
                    let mut m = MsgSpec::m1(ids.next());
                    if i == slow_idx {
                        m = m.steps(vec![Step::Yield, Step::Yield]);
                    } else {
                        m.entry_yield = false;
                    }
                    tells.push(send(if i == 3 { SendKind::Ask } else { SendKind::Tell }, 0, m));
                    if i < 3 {
                        tells.push(Step::Fuse);
                    }
                }
                let c0 = Program::new(vec![(0, 0)], tells);
                let c1 = Program::new(vec![(0, 0)], vec![Step::Kill(0)]);
                n += 1;
                let mut s = scn(format!("c06-{n}-seed{seed}-backlog-slow{slow_idx}-gate{gate_first}"), vec![a], vec![c0, c1], &[]);
                s.seed = *seed;
                out.push(s);
            }
        }
        // kill from the actor's own handler, kill after the actor is dead
        {
            let mut ids = Ids(0);
            let m = MsgSpec::m1(ids.next()).steps(vec![Step::Kill(SELF_SLOT), Step::Yield]);
            let c0 = Program::new(
                vec![(0, 0)],
                vec![send(SendKind::Tell, 0, m), send(SendKind::Tell, 0, MsgSpec::quick(ids.next())), send(SendKind::Ask, 0, MsgSpec::quick(ids.next()))],
            );
            n += 1;
            let mut s = scn(format!("c06-{n}-seed{seed}-selfkill"), vec![ActorSpec::plain(3)], vec![c0], &[]);
            s.seed = *seed;
            out.push(s);
            let c0 = Program::new(vec![(0, 0)], vec![Step::Stop(0), Step::Sleep(10), Step::Kill(0), Step::Kill(0)]);
            n += 1;
            let mut s = scn(format!("c06-{n}-seed{seed}-kill-dead"), vec![ActorSpec::plain(1)], vec![c0], &[]);
            s.seed = *seed;
            out.push(s);
        }
    }
    // a backlog of 1100 (2100) messages in a mailbox that large; the handler of the 5th (40th) is a scheduling
    // point, a second client kills the actor: at most one more handler starts, whatever the backlog
    let mut big = Vec::new();
    for (nmsg, at) in if thorough { vec![(1100usize, 5usize), (1100, 40), (2100, 1030)] } else { vec![(1100usize, 5usize)] } {
        let mut ids = Ids(0);
        let mut a = ActorSpec::plain(nmsg);
        a.free_handlers = true;
        a.on_start = gated(Outcome::Ok);
        let mut steps: Vec<Step> = Vec::new();
        for k in 0..nmsg {
            let mut m = MsgSpec::quick(ids.next());
            if k + 1 == at {
                // this handler wakes the killer and then gives way once
                m.entry_yield = true;
                m.steps = vec![Step::Signal(0), Step::Yield];
            }
            steps.push(send(SendKind::Tell, 0, m));
        }
        let c0 = Program { slots: vec![(0, 0)], steps, auto_yield: false, free: false };
        let c1 = Program::new(vec![(0, 0)], vec![Step::WaitSig(0), Step::Kill(0)]);
        n += 1;
        big.push(scn(format!("c06-{n}-kill-inside-a-backlog-of-{nmsg}-at-{at}"), vec![a], vec![c0, c1], &["bound=2", "maxexecs=20000"]));
    }
    let mut out = with_fused(out);
    out.extend(big);
    out
}

// ------------------------------------------------------------------ C07: termination and references

fn gen_c07(lvl: u8) -> Vec<Scenario> {
    let thorough = lvl >= 1;
    let xl = lvl >= 2;
    let _ = xl;
    let mut out = Vec::new();
    let mut n = 0;
    // handle histories over slots 0..2 of one or two clients
    #[derive(Clone, Debug, PartialEq)]
    enum Hs {
        Clone01,
        Drop0,
        Drop1,
        Down02,
        Up21,
        EraseTell01,
        EraseAsk01,
        EraseCtl01,
        EraseOwned01,
        CloneBoxed12,
        Tell0,
        Ask0,
        Tell1,
        WeakErase23Up31,
    }
    let alpha = [
        Hs::Clone01,
        Hs::Drop0,
        Hs::Drop1,
        Hs::Down02,
        Hs::Up21,
        Hs::EraseTell01,
        Hs::EraseAsk01,
        Hs::EraseCtl01,
        Hs::EraseOwned01,
        Hs::CloneBoxed12,
        Hs::Tell0,
        Hs::Tell1,
        Hs::WeakErase23Up31,
    ];
    let to_steps = |h: &Hs, ids: &mut Ids| -> Vec<Step> {
        match h {
            Hs::Clone01 => vec![Step::CloneH { from: 0, to: 1 }],
            Hs::Drop0 => vec![Step::DropH(0)],
            Hs::Drop1 => vec![Step::DropH(1)],
            Hs::Down02 => vec![Step::Downgrade { from: 0, to: 2 }],
            Hs::Up21 => vec![Step::Upgrade { from: 2, to: 1 }],
            Hs::EraseTell01 => vec![Step::Erase { from: 0, to: 1, kind: EraseKind::Tell, owned: false }],
            Hs::EraseAsk01 => vec![Step::Erase { from: 0, to: 1, kind: EraseKind::Ask, owned: false }],
            Hs::EraseCtl01 => vec![Step::Erase { from: 0, to: 1, kind: EraseKind::Ctl, owned: false }],
            Hs::EraseOwned01 => vec![Step::Erase { from: 0, to: 1, kind: EraseKind::Tell, owned: true }],
            Hs::CloneBoxed12 => vec![Step::CloneBoxed { from: 1, to: 2 }],
            Hs::Tell0 => vec![send(SendKind::Tell, 0, MsgSpec::m1(ids.next()))],
            Hs::Ask0 => vec![send(SendKind::Ask, 0, MsgSpec::m1(ids.next()))],
            Hs::Tell1 => vec![send(SendKind::Tell, 1, MsgSpec::m1(ids.next()))],
            Hs::WeakErase23Up31 => vec![
                Step::Downgrade { from: 0, to: 2 },
                Step::Fuse,
                Step::Erase { from: 2, to: 3, kind: EraseKind::Tell, owned: false },
                Step::Fuse,
                Step::Upgrade { from: 3, to: 1 },
            ],
        }
    };
    let runs: Vec<Vec<HookSpec>> = vec![
        vec![],
        vec![HookSpec { entry_yield: false, steps: vec![Step::Yield], out: Outcome::OkTrue, free: false }, HookSpec { entry_yield: false, steps: vec![], out: Outcome::OkFalse, free: false }],
        // an idle handler that never gives up: ticks twice, then waits forever
        vec![
            HookSpec { entry_yield: false, steps: vec![Step::Sleep(10)], out: Outcome::OkTrue, free: false },
            HookSpec { entry_yield: false, steps: vec![Step::Yield], out: Outcome::OkTrue, free: false },
            HookSpec { entry_yield: false, steps: vec![], out: Outcome::Pend, free: false },
        ],
    ];
    let maxlen = if thorough { 4 } else { 3 };
    for hist in seqs(&alpha, maxlen) {
        for (ri, run) in runs.iter().enumerate() {
            if !thorough && ri >= 1 && hist.len() > 2 {
                continue;
            }
            for other in [0, 1, 2] {
                // the second client: keeps its handle / drops it / stops the actor
                if !thorough && hist.len() == 3 && other == 2 {
                    continue;
                }
                let mut ids = Ids(0);
                let mut steps = Vec::new();
                for h in &hist {
                    steps.extend(to_steps(h, &mut ids));
                }
                let c0 = Program::new(vec![(0, 0)], steps);
                let c1 = Program::new(
                    vec![(0, 0)],
                    match other {
                        0 => vec![send(SendKind::Tell, 0, MsgSpec::m1(ids.next()))],
                        1 => vec![send(SendKind::Tell, 0, MsgSpec::m1(ids.next())), Step::Fuse, Step::DropH(0)],
                        _ => vec![Step::Stop(0)],
                    },
                );
                let mut a = ActorSpec::plain(4);
                a.on_run = run.clone();
                n += 1;
                out.push(scn(format!("c07-{n}-run{ri}-o{other}-{hist:?}"), vec![a.clone()], vec![c0.clone(), c1.clone()], &["probe"]));
                // the same history with a shutdown hook that takes its time (two suspension points)
                if hist.len() <= 2 || (thorough && hist.len() <= 3) {
                    a.on_stop = HookSpec { entry_yield: true, steps: vec![Step::Yield], out: Outcome::Ok, free: false };
                    n += 1;
                    out.push(scn(format!("c07-{n}-slowstop-run{ri}-o{other}-{hist:?}"), vec![a], vec![c0, c1], &["probe"]));
                }
            }
        }
    }
    // a long backlog (more than the default capacity of 32) built up while the actor starts, then stop / last drop /
    // nothing: every message is handled, the actor ends or keeps serving as the references say
    for nmsg in if thorough { vec![33usize, 40, 70] } else { vec![40usize] } {
        // besides the three scripts above: an idle handler that waits forever from its first invocation
        let mut runs_b = runs.clone();
        runs_b.push(vec![HookSpec { entry_yield: false, steps: vec![], out: Outcome::Pend, free: false }]);
        for (ri, run) in runs_b.iter().enumerate() {
            for ending in 0..3 {
                let mut ids = Ids(0);
                let mut a = ActorSpec::plain(nmsg);
                a.on_start = gated(Outcome::Ok);
                a.on_run = run.clone();
                let mut steps: Vec<Step> = Vec::new();
                for _ in 0..nmsg {
                    steps.push(send(SendKind::Tell, 0, MsgSpec::quick(ids.next())));
                }
                match ending {
                    0 => steps.push(Step::Stop(0)),
                    1 => steps.push(Step::DropH(0)),
                    _ => {}
                }
                let c0 = Program { slots: vec![(0, 0)], steps, auto_yield: false, free: false };
                n += 1;
                out.push(scn(format!("c07-{n}-backlog{nmsg}-run{ri}-end{ending}"), vec![a], vec![c0], &["probe"]));
            }
        }
    }
    // every reference disappears while on_start is still running
    for hist in seqs(&alpha, 2) {
        for other in [1, 2] {
            let mut ids = Ids(0);
            let mut steps = Vec::new();
            for h in &hist {
                steps.extend(to_steps(h, &mut ids));
            }
            steps.push(Step::DropH(0));
            steps.push(Step::Fuse);
            steps.push(Step::DropH(1));
            steps.push(Step::Fuse);
            steps.push(Step::DropH(2));
            let c0 = Program::new(vec![(0, 0)], steps);
            let c1 = Program::new(vec![(0, 0)], if other == 1 { vec![Step::DropH(0)] } else { vec![Step::Downgrade { from: 0, to: 1 }, Step::Fuse, Step::DropH(0)] });
            let mut a = ActorSpec::plain(4);
            a.on_start = HookSpec { entry_yield: true, steps: vec![Step::Yield], out: Outcome::Ok, free: false };
            n += 1;
            out.push(scn(format!("c07-{n}-gated-start-o{other}-{hist:?}"), vec![a], vec![c0, c1], &["probe"]));
        }
    }
    // a stop() whose caller gives up while it waits for a slot, followed later by a stop() that is accepted
    for cap in [1usize, 2] {
        let mut ids = Ids(0);
        let a = ActorSpec::plain(cap);
        let mut slow = MsgSpec::m1(ids.next()).steps(vec![Step::Sleep(20)]);
        slow.entry_yield = false;
        let mut tells = vec![send(SendKind::Tell, 0, slow)];
        for _ in 0..cap {
            tells.push(send(SendKind::Tell, 0, MsgSpec::quick(ids.next())));
        }
        let c0 = Program { slots: vec![(0, 0)], steps: tells, auto_yield: false, free: false };
        let c1 = Program::new(vec![(0, 0)], vec![Step::Sleep(1), Step::StopCancel { slot: 0, ms: 10 }, Step::Sleep(30), Step::Stop(0)]);
        let c2 = Program::new(vec![(0, 0)], vec![Step::Sleep(50), Step::CloneH { from: 0, to: 1 }, Step::Stop(1)]);
        n += 1;
        out.push(scn(format!("c07-{n}-cancelled-stop-cap{cap}"), vec![a], vec![c0, c1, c2], &["probe"]));
    }
    // stop() requested while the mailbox is full: the work accepted before it is still finished
    for cap in [1usize, 2] {
        for ri in 0..runs.len() {
            let mut ids = Ids(0);
            let mut a = ActorSpec::plain(cap);
            a.on_run = runs[ri].clone();
            let mut tells = vec![send(SendKind::Tell, 0, MsgSpec::m1(ids.next()).steps(vec![Step::Yield]))];
            for _ in 0..cap {
                tells.push(send(SendKind::Tell, 0, MsgSpec::m1(ids.next())));
            }
            let c0 = Program::new(vec![(0, 0)], tells);
            let c1 = Program::new(vec![(0, 0)], vec![Step::Stop(0)]);
            n += 1;
            out.push(scn(format!("c07-{n}-stop-full-cap{cap}-run{ri}"), vec![a], vec![c0, c1], &["probe"]));
        }
    }
    // a strong handle stored in another actor's state / travelling in a message
    for keep in [true, false] {
        let mut ids = Ids(0);
        let mut m = MsgSpec::m1(ids.next());
        m.carry = Some((0, if keep { Some(0) } else { None }));
        let c0 = Program::new(vec![(0, 0), (1, 1)], vec![send(SendKind::Tell, 1, m), send(SendKind::Tell, 1, MsgSpec::m1(ids.next()))]);
        let c1 = Program::new(vec![(0, 0)], vec![send(SendKind::Tell, 0, MsgSpec::m1(ids.next())), Step::DropH(0)]);
        n += 1;
        out.push(scn(format!("c07-{n}-carried-keep{keep}"), vec![ActorSpec::plain(2), ActorSpec::plain(2)], vec![c0, c1], &["probe"]));
    }
    out
}

// ------------------------------------------------------------------ C08: on_run

fn gen_c08(lvl: u8) -> Vec<Scenario> {
    let thorough = lvl >= 1;
    let xl = lvl >= 2;
    let _ = xl;
    let mut out = Vec::new();
    let mut n = 0;
    let bodies: Vec<Vec<Step>> = vec![
        vec![Step::Mark(1)],
        vec![Step::Mark(1), Step::Yield, Step::Mark(2)],
        vec![Step::Mark(1), Step::Sleep(10), Step::Mark(2)],
        vec![Step::Mark(1), Step::Yield, Step::Mark(2), Step::Yield, Step::Mark(3)],
    ];
    let outs = [Outcome::OkTrue, Outcome::OkFalse, Outcome::Err(5)];
    let mut scripts: Vec<Vec<HookSpec>> = Vec::new();
    for b1 in &bodies {
        for o1 in &outs {
            scripts.push(vec![HookSpec { entry_yield: false, steps: b1.clone(), out: o1.clone(), free: false }]);
            if *o1 == Outcome::OkTrue {
                for b2 in bodies.iter().take(if thorough { 4 } else { 2 }) {
                    for o2 in &outs {
                        scripts.push(vec![
                            HookSpec { entry_yield: false, steps: b1.clone(), out: o1.clone(), free: false },
                            HookSpec { entry_yield: false, steps: b2.clone(), out: o2.clone(), free: false },
                        ]);
                        if *o2 == Outcome::OkTrue && thorough {
                            scripts.push(vec![
                                HookSpec { entry_yield: false, steps: b1.clone(), out: o1.clone(), free: false },
                                HookSpec { entry_yield: false, steps: b2.clone(), out: o2.clone(), free: false },
                                HookSpec { entry_yield: false, steps: vec![Step::Mark(9)], out: Outcome::OkFalse, free: false },
                            ]);
                        }
                    }
                }
            }
        }
    }
    let seeds: Vec<u64> = if thorough { (0..8).collect() } else { (0..4).collect() };
    for (si, script) in scripts.iter().enumerate() {
        for cap in if xl { vec![1usize, 2, 3] } else { vec![1usize, 2] } {
            for traffic in 0..if xl { 6 } else { 4 } {
                let seed = seeds[(si + cap + traffic) % seeds.len()];
                let mut ids = Ids(0);
                let mut a = ActorSpec::plain(cap);
                a.on_run = script.clone();
                let quick = |ids: &mut Ids| MsgSpec::quick(ids.next());
                let clients = match traffic {
                    0 => vec![Program::new(vec![(0, 0)], vec![send(SendKind::Tell, 0, quick(&mut ids)), send(SendKind::Tell, 0, quick(&mut ids)), send(SendKind::Tell, 0, quick(&mut ids))])],
                    1 => vec![
                        Program::new(vec![(0, 0)], vec![send(SendKind::Tell, 0, quick(&mut ids)), send(SendKind::Tell, 0, quick(&mut ids))]),
                        Program::new(vec![(0, 0)], vec![send(SendKind::Tell, 0, MsgSpec::m1(ids.next())), Step::Stop(0)]),
                    ],
                    2 => vec![
                        Program::new(vec![(0, 0)], vec![send(SendKind::Tell, 0, quick(&mut ids)), Step::Sleep(10), send(SendKind::Tell, 0, quick(&mut ids))]),
                        Program::new(vec![(0, 0)], vec![Step::Kill(0)]),
                    ],
                    3 => vec![
                        Program::new(vec![(0, 0)], vec![send(SendKind::Tell, 0, quick(&mut ids)), Step::Fuse, send(SendKind::Tell, 0, quick(&mut ids)), Step::Sleep(20), send(SendKind::Tell, 0, quick(&mut ids))]),
                        Program::new(vec![(0, 0)], vec![send(SendKind::Tell, 0, MsgSpec::m1(ids.next()).steps(vec![Step::Yield]))]),
                    ],
                    // three senders, one of them asking
                    4 => vec![
                        Program::new(vec![(0, 0)], vec![send(SendKind::Tell, 0, quick(&mut ids)), send(SendKind::Ask, 0, MsgSpec::m1(ids.next()))]),
                        Program::new(vec![(0, 0)], vec![send(SendKind::Tell, 0, MsgSpec::m1(ids.next()).steps(vec![Step::Yield]))]),
                        Program::new(vec![(0, 0)], vec![Step::Sleep(10), send(SendKind::Tell, 0, quick(&mut ids)), Step::DropH(0)]),
                    ],
                    // all references dropped while on_run is armed
                    _ => vec![
                        Program::new(vec![(0, 0)], vec![send(SendKind::Tell, 0, quick(&mut ids)), Step::DropH(0)]),
                        Program::new(vec![(0, 0)], vec![Step::Sleep(10), send(SendKind::Tell, 0, MsgSpec::m1(ids.next())), Step::DropH(0)]),
                    ],
                };
                n += 1;
                let mut s = scn(format!("c08-{n}-script{si}-cap{cap}-traffic{traffic}-seed{seed}"), vec![a], clients, &[]);
                s.seed = seed;
                out.push(s);
            }
        }
    }
    // messages (and a kill) already queued when on_start completes: the very first poll of on_run must wait for them
    for (si, script) in scripts.iter().enumerate().filter(|(si, _)| si % 3 == 0) {
        for with_kill in [false, true] {
            let mut ids = Ids(0);
            let mut a = ActorSpec::plain(3);
            a.on_start = gated(Outcome::Ok);
            a.on_run = script.clone();
            let mut steps = vec![send(SendKind::Tell, 0, MsgSpec::quick(ids.next())), send(SendKind::Tell, 0, MsgSpec::quick(ids.next()))];
            if with_kill {
                steps.push(Step::Kill(0));
            }
            n += 1;
            out.push(scn(format!("c08-{n}-queued-before-loop-script{si}-kill{with_kill}"), vec![a], vec![Program::new(vec![(0, 0)], steps)], &[]));
        }
    }
    // on_run asks for its own actor to be killed and fails in the same breath: the failure path decides (on_stop(false))
    {
        let mut ids = Ids(0);
        let mut a = ActorSpec::plain(2);
        a.on_run = vec![
            HookSpec { entry_yield: false, steps: vec![Step::Mark(1), Step::Yield], out: Outcome::OkTrue, free: false },
            HookSpec { entry_yield: false, steps: vec![Step::Mark(2), Step::Kill(SELF_SLOT)], out: Outcome::Err(8), free: false },
        ];
        let c0 = Program::new(vec![(0, 0)], vec![send(SendKind::Tell, 0, MsgSpec::quick(ids.next()))]);
        n += 1;
        out.push(scn(format!("c08-{n}-selfkill-then-err"), vec![a], vec![c0], &["selfkill_in_on_run"]));
    }
    // free-running variants: wake-ups are delivered by tokio itself, so a message and the event on_run is
    // waiting for can become ready in the same poll of the actor task
    for cap in [1usize, 2] {
        for order in 0..2 {
            for out2 in [Outcome::OkFalse, Outcome::OkTrue] {
                let mut ids = Ids(0);
                let mut a = ActorSpec::plain(cap);
                a.on_run = vec![
                    HookSpec { entry_yield: false, steps: vec![Step::Mark(1), Step::WaitSig(0), Step::Mark(2)], out: Outcome::OkTrue, free: true },
                    HookSpec { entry_yield: false, steps: vec![Step::Mark(3), Step::WaitSig(1), Step::Mark(4)], out: out2.clone(), free: true },
                    HookSpec { entry_yield: false, steps: vec![Step::Mark(5)], out: Outcome::OkFalse, free: true },
                ];
                let t = |ids: &mut Ids| send(SendKind::Tell, 0, MsgSpec::quick(ids.next()));
                let steps = if order == 0 {
                    vec![t(&mut ids), Step::Fuse, Step::Signal(0), t(&mut ids), Step::Fuse, Step::Signal(1)]
                } else {
                    vec![Step::Signal(0), Step::Fuse, t(&mut ids), Step::Signal(1), Step::Fuse, t(&mut ids)]
                };
                n += 1;
                out.push(scn(format!("c08-{n}-free-onrun-cap{cap}-order{order}-{out2:?}"), vec![a], vec![Program::new(vec![(0, 0)], steps)], &[]));
            }
        }
    }
    // on_run queues a message for its own actor (or kills it) and asks to run again in the same breath: the next
    // invocation may not start before the message is handled (or at all, after the kill)
    for free_run in [false, true] {
        for act in 0..3 {
            let mut ids = Ids(0);
            let mut a = ActorSpec::plain(2);
            let first = match act {
                0 => vec![Step::Mark(1), send(SendKind::Tell, SELF_SLOT, MsgSpec::quick(ids.next()))],
                1 => vec![Step::Mark(1), Step::Yield, send(SendKind::Tell, SELF_SLOT, MsgSpec::quick(ids.next())), Step::Fuse, send(SendKind::Tell, SELF_SLOT, MsgSpec::quick(ids.next()))],
                _ => vec![Step::Mark(1), Step::Kill(SELF_SLOT)],
            };
            a.on_run = vec![
                HookSpec { entry_yield: false, steps: first, out: Outcome::OkTrue, free: free_run },
                HookSpec { entry_yield: false, steps: vec![Step::Mark(2), Step::Yield, Step::Mark(3)], out: Outcome::OkTrue, free: free_run },
                HookSpec { entry_yield: false, steps: vec![Step::Mark(4)], out: Outcome::OkFalse, free: free_run },
            ];
            let c0 = Program::new(vec![(0, 0)], vec![send(SendKind::Tell, 0, MsgSpec::quick(ids.next()))]);
            n += 1;
            out.push(scn(format!("c08-{n}-self-feeding-onrun-act{act}-free{free_run}"), vec![a], vec![c0], if act == 2 { &["selfkill_in_on_run"] } else { &[] }));
        }
    }
    // on_run fails with an error whose Debug text is several kilobytes of multi-byte characters
    for tag in 9000..=9003u32 {
        let mut ids = Ids(0);
        let mut a = ActorSpec::plain(2);
        a.on_run = vec![
            HookSpec { entry_yield: false, steps: vec![Step::Mark(1), Step::Yield], out: Outcome::OkTrue, free: false },
            HookSpec { entry_yield: false, steps: vec![Step::Mark(2)], out: Outcome::Err(tag), free: false },
        ];
        let c0 = Program::new(vec![(0, 0)], vec![send(SendKind::Tell, 0, MsgSpec::quick(ids.next()))]);
        n += 1;
        out.push(scn(format!("c08-{n}-on-run-fails-with-a-long-error-text-{tag}"), vec![a], vec![c0], &[]));
    }
    // a backlog larger than tokio's cooperative budget (128 operations per poll of a task), handled by handlers that
    // never suspend: the idle handler still waits until the mailbox is empty
    for nmsg in if thorough { vec![130usize, 200, 300] } else { vec![200usize] } {
        for script in 0..2 {
            let mut ids = Ids(0);
            let mut a = ActorSpec::plain(nmsg);
            a.free_handlers = true;
            a.on_start = gated(Outcome::Ok);
            a.on_run = if script == 0 {
                vec![
                    HookSpec { entry_yield: false, steps: vec![Step::Mark(1), Step::Yield, Step::Mark(2)], out: Outcome::OkTrue, free: true },
                    HookSpec { entry_yield: false, steps: vec![Step::Mark(3)], out: Outcome::OkFalse, free: true },
                ]
            } else {
                vec![HookSpec { entry_yield: false, steps: vec![Step::Mark(1)], out: Outcome::OkFalse, free: false }]
            };
            let mut steps: Vec<Step> = Vec::new();
            for _ in 0..nmsg {
                steps.push(send(SendKind::Tell, 0, MsgSpec::quick(ids.next())));
            }
            let c0 = Program { slots: vec![(0, 0)], steps, auto_yield: false, free: false };
            n += 1;
            out.push(scn(format!("c08-{n}-backlog{nmsg}-beyond-the-coop-budget-script{script}"), vec![a], vec![c0], &[]));
        }
    }
    // a client that is woken by on_run just before on_run returns, and sends at once
    for first in [Outcome::OkFalse, Outcome::Err(6), Outcome::OkTrue] {
        for free_run in [false, true] {
            let mut ids = Ids(0);
            let mut a = ActorSpec::plain(2);
            a.on_run = vec![
                HookSpec { entry_yield: false, steps: vec![Step::Mark(1), Step::Yield, Step::Signal(0)], out: first.clone(), free: free_run },
                HookSpec { entry_yield: false, steps: vec![Step::Mark(2)], out: Outcome::OkFalse, free: free_run },
            ];
            let mut c0 = Program::new(
                vec![(0, 0)],
                vec![Step::WaitSig(0), send(SendKind::Tell, 0, MsgSpec::quick(ids.next())), send(SendKind::Tell, 0, MsgSpec::quick(ids.next()))],
            );
            c0.free = true;
            c0.auto_yield = false;
            let c1 = Program::new(vec![(0, 0)], vec![send(SendKind::Tell, 0, MsgSpec::m1(ids.next()))]);
            n += 1;
            out.push(scn(format!("c08-{n}-woken-client-{first:?}-free{free_run}"), vec![a], vec![c0, c1], &[]));
        }
    }
    out
}

// ------------------------------------------------------------------ C09: capacity

fn gen_c09(lvl: u8) -> Vec<Scenario> {
    let thorough = lvl >= 1;
    let xl = lvl >= 2;
    let mut out = Vec::new();
    let mut n = 0;
    let caps: Vec<usize> = if xl { vec![1, 2, 3, 4, 5] } else { vec![1, 2, 3] };
    for cap in caps {
        for parked in [0, 1] {
            for nclients in [1usize, 2, 3] {
                for with_stop in [false, true] {
                    if !thorough && nclients == 3 && cap == 3 {
                        continue;
                    }
                    let k = cap + 2;
                    let mut ids = Ids(0);
                    let mut a = ActorSpec::plain(cap);
                    if parked == 0 {
                        a.on_start = HookSpec { entry_yield: true, steps: vec![Step::Yield], out: Outcome::Ok, free: false };
                    }
                    let mut progs: Vec<Vec<Step>> = (0..nclients).map(|_| Vec::new()).collect();
                    for i in 0..k {
                        let body = if parked == 1 && i == 0 { vec![Step::Yield, Step::Yield] } else { vec![] };
                        progs[i % nclients].push(send(SendKind::Tell, 0, MsgSpec::m1(ids.next()).steps(body)));
                    }
                    if with_stop {
                        progs[nclients - 1].push(Step::Stop(0));
                    }
                    let clients = progs.into_iter().map(|p| Program::new(vec![(0, 0)], p)).collect();
                    n += 1;
                    out.push(scn(format!("c09-{n}-cap{cap}-parked{parked}-c{nclients}-stop{with_stop}"), vec![a], clients, &["quiet", "occ"]));
                }
            }
        }
    }
    // spawn() default capacity: 32 tells fit, the 33rd waits
    {
        let mut ids = Ids(0);
        let mut a = ActorSpec::plain(1);
        a.cap = None;
        a.on_start = HookSpec { entry_yield: true, steps: vec![Step::Yield], out: Outcome::Ok, free: false };
        let mut steps = Vec::new();
        for _ in 0..34 {
            steps.push(send(SendKind::Tell, 0, MsgSpec::quick(ids.next())));
            steps.push(Step::Fuse);
        }
        let c0 = Program::new(vec![(0, 0)], steps);
        n += 1;
        out.push(scn(format!("c09-{n}-default-capacity"), vec![a], vec![c0], &["quiet", "occ"]));
    }
    // an actor that fills its own mailbox: the tell that finds no slot waits (and, bounded, times out) like anybody's
    for cap in [1usize, 2] {
        for from_run in [false, true] {
            let mut ids = Ids(0);
            let mut a = ActorSpec::plain(cap);
            let mut burst: Vec<Step> = Vec::new();
            for _ in 0..cap {
                burst.push(send(SendKind::Tell, SELF_SLOT, MsgSpec::quick(ids.next())));
                burst.push(Step::Fuse);
            }
            let c0;
            if from_run {
                // the tell that finds the mailbox full waits inside on_run; the select! then serves the mailbox and
                // cancels it, the next invocation gives up idling
                burst.push(send(SendKind::Tell, SELF_SLOT, MsgSpec::quick(ids.next())));
                a.on_run = vec![
                    HookSpec { entry_yield: false, steps: burst, out: Outcome::OkTrue, free: false },
                    HookSpec { entry_yield: false, steps: vec![Step::Yield], out: Outcome::OkFalse, free: false },
                ];
                c0 = Program::new(vec![(0, 0)], vec![Step::Sleep(5), send(SendKind::Ask, 0, MsgSpec::m1(ids.next()))]);
            } else {
                burst.push(send(SendKind::TellTO(10), SELF_SLOT, MsgSpec::quick(ids.next())));
                let fill = MsgSpec::m1(ids.next()).steps(burst);
                c0 = Program::new(vec![(0, 0)], vec![send(SendKind::Tell, 0, fill), Step::Sleep(20), send(SendKind::Ask, 0, MsgSpec::m1(ids.next()))]);
            }
            n += 1;
            out.push(scn(format!("c09-{n}-fills-own-mailbox-cap{cap}-fromrun{from_run}"), vec![a], vec![c0], &["quiet"]));
        }
    }
    // large capacities are what was asked for, too (the channel reports its capacity through hook H3)
    for cap in [1000usize, 65_535, 65_536, 100_000, 1_000_000, (u32::MAX as usize) + 1] {
        let mut ids = Ids(0);
        let a = ActorSpec::plain(cap);
        let c0 = Program::new(vec![(0, 0)], vec![send(SendKind::Tell, 0, MsgSpec::quick(ids.next())), send(SendKind::Ask, 0, MsgSpec::quick(ids.next()))]);
        n += 1;
        out.push(scn(format!("c09-{n}-large-capacity-{cap}"), vec![a], vec![c0], &["quiet"]));
    }
    // capacity 0 is rejected
    {
        let mut a = ActorSpec::plain(1);
        a.cap = Some(0);
        a.at_start = false;
        let c0 = Program::new(vec![], vec![Step::Spawn { actor: 0, to: 0 }]);
        n += 1;
        out.push(scn(format!("c09-{n}-cap0"), vec![a], vec![c0], &[]));
    }
    with_fused(out)
}

// ------------------------------------------------------------------ C10: timeouts

fn gen_c10(lvl: u8) -> Vec<Scenario> {
    let thorough = lvl >= 1;
    let xl = lvl >= 2;
    let _ = xl;
    let mut out = Vec::new();
    let mut n = 0;
    let ts: Vec<u32> = if xl { vec![0, 10, 20, 30] } else { vec![0, 10, 20] };
    // natural completion of the handler relative to the deadline
    #[derive(Clone, Copy, Debug)]
    enum Nat {
        At(u32),
        Never,
    }
    #[derive(Clone, Copy, Debug)]
    enum Death {
        None,
        StopDrain,
        Kill(u32),
        Panic(u32),
    }
    for t in ts {
        for timed in [SendKind::AskTO(t), SendKind::TellTO(t)] {
            for nat in [Nat::At(0), Nat::At(10), Nat::At(20), Nat::At(30), Nat::Never] {
                for full_until in [None, Some(10u32), Some(20), Some(30), Some(9999)] {
                    for death in [Death::None, Death::StopDrain, Death::Kill(10), Death::Kill(20), Death::Panic(10), Death::Panic(20)] {
                        for erased in [false, true] {
                            if !thorough {
                                // quick tier: every pair of the three "heavy" dimensions, but not all three at once
                                let heavy = full_until.is_some() as u32 + !matches!(death, Death::None) as u32 + erased as u32;
                                if heavy > 2 || (heavy == 2 && erased && !matches!(nat, Nat::At(0) | Nat::Never)) {
                                    continue;
                                }
                            }
                            if matches!(timed, SendKind::TellTO(_)) && full_until.is_none() && !matches!(nat, Nat::At(0)) {
                                continue; // a tell into a free mailbox does not depend on the handler
                            }
                            let mut ids = Ids(0);
                            let a = ActorSpec::plain(1);
                            let mut clients = Vec::new();
                            // blocker: occupies the actor (and with a second tell the single slot) until `full_until`
                            if let Some(u) = full_until {
                                let body = if u == 9999 { vec![Step::Park] } else { vec![Step::Sleep(u)] };
                                let mut mb = MsgSpec::m1(ids.next()).steps(body);
                                mb.entry_yield = false;
                                let mut filler = MsgSpec::quick(ids.next());
                                filler.entry_yield = false;
                                clients.push(Program { slots: vec![(0, 0)], steps: vec![send(SendKind::Tell, 0, mb), send(SendKind::Tell, 0, filler)], auto_yield: false, free: false });
                            }
                            let body = match nat {
                                Nat::At(0) => vec![],
                                Nat::At(d) => vec![Step::Sleep(d)],
                                Nat::Never => vec![Step::Park],
                            };
                            let mut m = MsgSpec::m1(ids.next()).steps(body);
                            m.entry_yield = false;
                            if let Death::Panic(d) = death {
                                // the timed message's own handler panics at time d
                                m.steps = vec![Step::Sleep(d)];
                                m.out = Outcome::Panic(7);
                            }
                            let mut steps = vec![];
                            if full_until.is_some() {
                                steps.push(Step::Yield);
                            }
                            let slot = if erased {
                                steps.push(Step::Erase { from: 0, to: 1, kind: if timed.is_ask() { EraseKind::Ask } else { EraseKind::Tell }, owned: false });
                                steps.push(Step::Fuse);
                                1
                            } else {
                                0
                            };
                            steps.push(send(timed, slot, m));
                            clients.push(Program::new(vec![(0, 0)], steps));
                            match death {
                                Death::None | Death::Panic(_) => {}
                                Death::StopDrain => clients.push(Program::new(vec![(0, 0)], vec![Step::Stop(0)])),
                                Death::Kill(d) => clients.push(Program::new(vec![(0, 0)], vec![Step::Sleep(d), Step::Kill(0)])),
                            }
                            n += 1;
                            let tags: &[&str] = if full_until.is_none() && matches!(timed, SendKind::TellTO(_)) { &["roomy"] } else { &[] };
                            out.push(scn(format!("c10-{n}-{timed:?}-{nat:?}-full{full_until:?}-{death:?}-erased{erased}"), vec![a], clients, tags));
                        }
                    }
                }
            }
        }
    }
    // the largest timeout there is: the operation simply completes (or fails) as if it had no deadline
    for timed in [SendKind::AskTO(u32::MAX), SendKind::TellTO(u32::MAX)] {
        for erased in [false, true] {
            for shape in 0..3 {
                let mut ids = Ids(0);
                let mut clients = Vec::new();
                let mut actors = vec![ActorSpec::plain(1)];
                let mut m = MsgSpec::m1(ids.next()).steps(if shape == 1 { vec![Step::Sleep(20)] } else { vec![] });
                m.entry_yield = false;
                let mut steps = vec![];
                if shape == 1 {
                    // the mailbox is full until t=10
                    let mut mb = MsgSpec::m1(ids.next()).steps(vec![Step::Sleep(10)]);
                    mb.entry_yield = false;
                    let mut filler = MsgSpec::quick(ids.next());
                    filler.entry_yield = false;
                    clients.push(Program { slots: vec![(0, 0)], steps: vec![send(SendKind::Tell, 0, mb), send(SendKind::Tell, 0, filler)], auto_yield: false, free: false });
                    steps.push(Step::Yield);
                }
                let tslot: u8 = if shape == 2 { REG_BASE + 1 } else { 0 };
                let slot = if erased {
                    steps.push(Step::CloneH { from: tslot, to: 5 });
                    steps.push(Step::Erase { from: 5, to: 6, kind: if timed.is_ask() { EraseKind::Ask } else { EraseKind::Tell }, owned: true });
                    steps.push(Step::Fuse);
                    6
                } else {
                    tslot
                };
                steps.push(send(timed, slot, m));
                if shape == 2 {
                    // issued by a handler of another actor, whose own caller waits for the relayed answer
                    actors = vec![ActorSpec::plain(2), ActorSpec::plain(2)];
                    let relay = MsgSpec::m1(ids.next()).steps(steps);
                    clients.push(Program::new(vec![(0, 0)], vec![send(SendKind::Ask, 0, relay)]));
                } else {
                    clients.push(Program::new(vec![(0, 0)], steps));
                }
                n += 1;
                let mut sc = scn(format!("c10-{n}-extreme-{timed:?}-erased{erased}-shape{shape}"), actors, clients, &[]);
                sc.registry = shape == 2;
                out.push(sc);
            }
        }
    }
    // the executor is busy while the reply arrives and the deadline passes: when the caller is finally polled it
    // finds both its reply and an expired timer, and the reply wins (several tokio rng seeds: an unbiased select!
    // between the two would pick by chance)
    for timed in [SendKind::AskTO(10), SendKind::TellTO(10)] {
        for erased in [false, true] {
            for seed in 0..6u64 {
                let mut ids = Ids(0);
                let mut clients = Vec::new();
                let mut steps = vec![];
                let mut m = MsgSpec::m1(ids.next());
                m.entry_yield = false;
                if timed.is_ask() {
                    m.steps = vec![Step::Sleep(5)];
                } else {
                    // the tell waits for a slot that frees at t=5
                    let mut mb = MsgSpec::m1(ids.next()).steps(vec![Step::Sleep(5)]);
                    mb.entry_yield = false;
                    let mut filler = MsgSpec::quick(ids.next());
                    filler.entry_yield = false;
                    clients.push(Program { slots: vec![(0, 0)], steps: vec![send(SendKind::Tell, 0, mb), send(SendKind::Tell, 0, filler)], auto_yield: false, free: false });
                    steps.push(Step::Yield);
                }
                let slot = if erased {
                    steps.push(Step::Erase { from: 0, to: 1, kind: if timed.is_ask() { EraseKind::Ask } else { EraseKind::Tell }, owned: false });
                    steps.push(Step::Fuse);
                    1
                } else {
                    0
                };
                steps.push(send(timed, slot, m));
                clients.push(Program::new(vec![(0, 0)], steps));
                clients.push(Program::new(vec![], vec![Step::Sleep(5), Step::Stall(10)]));
                n += 1;
                let mut sc = scn(format!("c10-{n}-stalled-executor-{timed:?}-erased{erased}-seed{seed}"), vec![ActorSpec::plain(1)], clients, &["stall"]);
                sc.seed = seed;
                out.push(sc);
            }
        }
    }
    // timeouts that are not whole milliseconds (999 us, 1999 us, 2500 us) against a handler that never answers and
    // against a mailbox that stays full; another client makes the clock stop at every millisecond on the way
    for us in [999u32, 1999, 2500] {
        for timed in [SendKind::AskTO(crate::model::TO_MICROS_BASE + us), SendKind::TellTO(crate::model::TO_MICROS_BASE + us)] {
            for erased in [false, true] {
                let mut ids = Ids(0);
                let mut clients = Vec::new();
                let mut steps = vec![];
                let mut m = MsgSpec::m1(ids.next());
                m.entry_yield = false;
                if timed.is_ask() {
                    m.steps = vec![Step::Park];
                } else {
                    let mut mb = MsgSpec::m1(ids.next()).steps(vec![Step::Park]);
                    mb.entry_yield = false;
                    let mut filler = MsgSpec::quick(ids.next());
                    filler.entry_yield = false;
                    clients.push(Program { slots: vec![(0, 0)], steps: vec![send(SendKind::Tell, 0, mb), send(SendKind::Tell, 0, filler)], auto_yield: false, free: false });
                    steps.push(Step::Yield);
                }
                let slot = if erased {
                    steps.push(Step::Erase { from: 0, to: 1, kind: if timed.is_ask() { EraseKind::Ask } else { EraseKind::Tell }, owned: false });
                    steps.push(Step::Fuse);
                    1
                } else {
                    0
                };
                steps.push(send(timed, slot, m));
                clients.push(Program::new(vec![(0, 0)], steps));
                clients.push(Program::new(vec![], vec![Step::Sleep(1), Step::Sleep(1), Step::Sleep(1)]));
                n += 1;
                out.push(scn(format!("c10-{n}-submilli-{us}us-{}-erased{erased}", if timed.is_ask() { "ask" } else { "tell" }), vec![ActorSpec::plain(1)], clients, &["parked"]));
            }
        }
    }
    // two concurrent timed operations
    for (t1, t2) in [(10u32, 20u32), (10, 10), (20, 10)] {
        let mut ids = Ids(0);
        let mut m1 = MsgSpec::m1(ids.next()).steps(vec![Step::Sleep(15)]);
        m1.entry_yield = false;
        let mut m2 = MsgSpec::m1(ids.next()).steps(vec![Step::Sleep(5)]);
        m2.entry_yield = false;
        let c0 = Program::new(vec![(0, 0)], vec![send(SendKind::AskTO(t1), 0, m1)]);
        let c1 = Program::new(vec![(0, 0)], vec![send(SendKind::AskTO(t2), 0, m2)]);
        n += 1;
        out.push(scn(format!("c10-{n}-two-{t1}-{t2}"), vec![ActorSpec::plain(1)], vec![c0, c1], &[]));
    }
    out
}

// ------------------------------------------------------------------ C11: identity, is_alive, upgrade

fn gen_c11(lvl: u8) -> Vec<Scenario> {
    let thorough = lvl >= 1;
    let xl = lvl >= 2;
    let _ = xl;
    let mut out = Vec::new();
    let mut n = 0;
    // derivation chains
    #[derive(Clone, Debug, PartialEq)]
    enum D {
        Clone,
        DownUp,
        EraseTell,
        EraseAsk,
        EraseCtl,
        WeakEraseUp,
        BoxClone,
    }
    let alpha = [D::Clone, D::DownUp, D::EraseTell, D::EraseAsk, D::EraseCtl, D::WeakEraseUp, D::BoxClone];
    for chain in seqs(&alpha, if xl { 4 } else if thorough { 3 } else { 2 }) {
        // slot `cur` always holds the newest strong-ish handle
        let mut steps: Vec<Step> = vec![Step::Ident(0)];
        let mut cur: u8 = 0;
        let mut typed = true; // cur holds a typed ActorRef
        let mut ok = true;
        for d in &chain {
            let nxt = cur + 2;
            match d {
                D::Clone => steps.push(Step::CloneH { from: cur, to: nxt }),
                D::BoxClone => steps.push(Step::CloneBoxed { from: cur, to: nxt }),
                D::DownUp => {
                    steps.push(Step::Downgrade { from: cur, to: cur + 1 });
                    steps.push(Step::Ident(cur + 1));
                    steps.push(Step::IsAlive(cur + 1));
                    steps.push(Step::Upgrade { from: cur + 1, to: nxt });
                }
                D::EraseTell | D::EraseAsk | D::EraseCtl => {
                    if !typed {
                        ok = false;
                        break;
                    }
                    let kind = match d {
                        D::EraseTell => EraseKind::Tell,
                        D::EraseAsk => EraseKind::Ask,
                        _ => EraseKind::Ctl,
                    };
                    steps.push(Step::Erase { from: cur, to: nxt, kind, owned: false });
                    typed = false;
                }
                D::WeakEraseUp => {
                    if !typed {
                        ok = false;
                        break;
                    }
                    steps.push(Step::Downgrade { from: cur, to: cur + 1 });
                    steps.push(Step::Erase { from: cur + 1, to: cur + 1, kind: EraseKind::Ctl, owned: true });
                    steps.push(Step::Ident(cur + 1));
                    steps.push(Step::Upgrade { from: cur + 1, to: nxt });
                    typed = false;
                }
            }
            steps.push(Step::Ident(nxt));
            steps.push(Step::IsAlive(nxt));
            cur = nxt;
        }
        if !ok {
            continue;
        }
        // interleave with a second actor and a stop, then probe again after the end
        steps.push(Step::Stop(cur));
        steps.push(Step::Sleep(10));
        steps.push(Step::IsAlive(cur));
        steps.push(Step::Ident(cur));
        let mut p = Program::new(vec![(0, 0)], steps);
        p.auto_yield = false;
        let c1 = Program::new(vec![(0, 1)], vec![Step::Ident(0), Step::IsAlive(0)]);
        n += 1;
        out.push(scn(format!("c11-{n}-chain-{chain:?}"), vec![ActorSpec::plain(2), ActorSpec::plain(2)], vec![p, c1], &[]));
    }
    // is_alive / upgrade at every lifecycle point and after each termination cause
    #[derive(Clone, Copy, Debug)]
    enum Cause {
        Stop,
        Kill,
        Drop,
        StartErr,
        StartPanic,
        HandlerPanic,
        RunErr,
    }
    for cause in [Cause::Stop, Cause::Kill, Cause::Drop, Cause::StartErr, Cause::StartPanic, Cause::HandlerPanic, Cause::RunErr] {
        for probe in 0..3 {
            let mut ids = Ids(0);
            let mut a = ActorSpec::plain(2);
            a.on_start = gated(match cause {
                Cause::StartErr => Outcome::Err(1),
                Cause::StartPanic => Outcome::Panic(1),
                _ => Outcome::Ok,
            });
            if let Cause::RunErr = cause {
                a.on_run = vec![HookSpec { entry_yield: false, steps: vec![Step::Yield], out: Outcome::Err(2), free: false }];
            }
            a.on_stop = gated(Outcome::Ok);
            let mut m = MsgSpec::m1(ids.next()).steps(vec![Step::Yield]);
            if let Cause::HandlerPanic = cause {
                m = m.out(Outcome::Panic(3));
            }
            let c0 = Program::new(
                vec![(0, 0)],
                vec![
                    Step::Downgrade { from: 0, to: 1 },
                    send(SendKind::Tell, 0, m),
                    match cause {
                        Cause::Stop => Step::Stop(0),
                        Cause::Kill => Step::Kill(0),
                        _ => Step::DropH(0),
                    },
                    Step::Upgrade { from: 1, to: 2 },
                    Step::IsAlive(1),
                    Step::Sleep(10),
                    Step::Upgrade { from: 1, to: 3 },
                    Step::IsAlive(1),
                ],
            );
            let c1 = Program::new(
                vec![(0, 0)],
                match probe {
                    0 => vec![Step::IsAlive(0), Step::IsAlive(0), Step::DropH(0)],
                    1 => vec![Step::Downgrade { from: 0, to: 1 }, Step::Fuse, Step::DropH(0), Step::Upgrade { from: 1, to: 2 }, Step::IsAlive(2), Step::DropH(2), Step::Upgrade { from: 1, to: 2 }],
                    _ => vec![Step::IsAlive(0), Step::Sleep(10), Step::IsAlive(0), send(SendKind::Tell, 0, MsgSpec::m1(ids.next())), Step::Stop(0), Step::Kill(0)],
                },
            );
            n += 1;
            out.push(scn(format!("c11-{n}-{cause:?}-probe{probe}"), vec![a], vec![c0, c1], &[]));
        }
    }
    // both spawn entry points in one process: spawn() (default capacity) and spawn_with_mailbox_capacity()
    for at_start in [true, false] {
        let mut a1 = ActorSpec::plain(1);
        a1.cap = None;
        let a2 = ActorSpec::plain(2);
        let mut a3 = ActorSpec::plain(1);
        a3.cap = None;
        let mut actors = vec![a1, a2, a3];
        let clients = if at_start {
            vec![Program::new(vec![(0, 0), (1, 1), (2, 2)], vec![Step::Ident(0), Step::Ident(1), Step::Ident(2)])]
        } else {
            for a in actors.iter_mut() {
                a.at_start = false;
            }
            (0..3).map(|j| Program::new(vec![], vec![Step::Spawn { actor: j, to: 0 }, Step::Ident(0)])).collect()
        };
        n += 1;
        out.push(scn(format!("c11-{n}-both-spawn-entry-points-atstart{at_start}"), actors, clients, &["fresh_process"]));
    }
    // actors spawned by concurrent clients
    {
        let mut a1 = ActorSpec::plain(1);
        a1.at_start = false;
        let a2 = a1.clone();
        let a3 = a1.clone();
        let c = |j: usize| Program::new(vec![], vec![Step::Spawn { actor: j, to: 0 }, Step::Ident(0), Step::CloneH { from: 0, to: 1 }, Step::Ident(1)]);
        n += 1;
        out.push(scn(format!("c11-{n}-concurrent-spawn"), vec![a1, a2, a3], vec![c(0), c(1), c(2)], &[]));
    }
    // the actor is killed with 1100 messages still queued; once its JoinHandle has resolved every handle says so
    {
        let mut ids = Ids(0);
        let mut a = ActorSpec::plain(1200);
        a.on_start = gated(Outcome::Ok);
        let mut steps: Vec<Step> = Vec::new();
        for _ in 0..1100 {
            steps.push(send(SendKind::Tell, 0, MsgSpec::quick(ids.next())));
        }
        steps.push(Step::CloneH { from: 0, to: 1 });
        steps.push(Step::Downgrade { from: 0, to: 2 });
        steps.push(Step::Kill(0));
        let c0 = Program { slots: vec![(0, 0)], steps, auto_yield: false, free: false };
        let c1 = Program::new(
            vec![(0, 0)],
            vec![Step::Sleep(50), Step::IsAlive(0), send(SendKind::Tell, 0, MsgSpec::quick(ids.next())), send(SendKind::Ask, 0, MsgSpec::quick(ids.next())), Step::Downgrade { from: 0, to: 2 }, Step::Upgrade { from: 2, to: 1 }, Step::IsAlive(1)],
        );
        n += 1;
        out.push(scn(format!("c11-{n}-killed-with-a-backlog-of-1100"), vec![a], vec![c0, c1], &[]));
    }
    // every strong handle is dropped while an accepted stop request (or an accepted tell) is still queued behind a
    // busy handler: a weak handle still upgrades
    for queued in 0..2 {
        for busy in [false, true] {
            let mut ids = Ids(0);
            let a = ActorSpec::plain(3);
            let mut steps = Vec::new();
            if busy {
                let mut slow = MsgSpec::m1(ids.next()).steps(vec![Step::Sleep(20)]);
                slow.entry_yield = false;
                steps.push(send(SendKind::Tell, 0, slow));
            }
            // (the actor has started and is idle, or sits in the slow handler; what follows happens without the actor
            // task being polled in between)
            steps.push(Step::Sleep(1));
            steps.push(Step::Downgrade { from: 0, to: 2 });
            steps.push(Step::Fuse);
            steps.push(if queued == 0 { Step::Stop(0) } else { send(SendKind::Tell, 0, MsgSpec::quick(ids.next())) });
            steps.push(Step::Fuse);
            steps.push(Step::DropH(0));
            steps.push(Step::Fuse);
            steps.push(Step::Upgrade { from: 2, to: 1 });
            steps.push(Step::Fuse);
            steps.push(Step::Ident(1));
            steps.push(Step::DropH(1));
            let c0 = Program::new(vec![(0, 0)], steps);
            n += 1;
            out.push(scn(format!("c11-{n}-unreferenced-but-{}-queued-busy{busy}", if queued == 0 { "stop" } else { "tell" }), vec![a], vec![c0], &[]));
        }
    }
    out
}

// ------------------------------------------------------------------ C13: dead letters

fn gen_c13(lvl: u8) -> Vec<Scenario> {
    let thorough = lvl >= 1;
    let xl = lvl >= 2;
    let _ = xl;
    let mut out = Vec::new();
    let mut n = 0;
    #[derive(Clone, Copy, Debug)]
    enum State {
        Live,
        Parked,
        Full,
        Stopping,
        DeadStop,
        DeadKill,
        DeadPanic,
        DeadStartErr,
        FullThenKill,
        FullThenPanic,
    }
    let ops: Vec<(SendKind, MsgKind)> = vec![
        (SendKind::Tell, MsgKind::M1),
        (SendKind::TellTO(10), MsgKind::M1),
        (SendKind::Ask, MsgKind::M1),
        (SendKind::AskTO(10), MsgKind::M1),
        (SendKind::AskJoin, MsgKind::MJ),
        (SendKind::Ask, MsgKind::M2),
        (SendKind::Tell, MsgKind::MR),
    ];
    for state in [State::Live, State::Parked, State::Full, State::Stopping, State::DeadStop, State::DeadKill, State::DeadPanic, State::DeadStartErr, State::FullThenKill, State::FullThenPanic] {
        for (i1, (k1, mk1)) in ops.iter().enumerate() {
            for (k2, mk2) in ops.iter().skip(if thorough { 0 } else { i1 }) {
                for erased in [false, true] {
                    if erased && (*mk1 != MsgKind::M1 || *k1 == SendKind::AskJoin) {
                        continue;
                    }
                    let mut ids = Ids(0);
                    let mut a = ActorSpec::plain(1);
                    a.on_stop = gated(Outcome::Ok);
                    if let State::DeadStartErr = state {
                        a.on_start = gated(Outcome::Err(1));
                    }
                    let mut clients = Vec::new();
                    // the state setter
                    let setter: Vec<Step> = match state {
                        State::Live => vec![],
                        State::Parked => {
                            let mut m = MsgSpec::m1(ids.next()).steps(vec![Step::Sleep(20)]);
                            m.entry_yield = false;
                            vec![send(SendKind::Tell, 0, m)]
                        }
                        State::Full => {
                            let mut m = MsgSpec::m1(ids.next()).steps(vec![Step::Sleep(20)]);
                            m.entry_yield = false;
                            vec![send(SendKind::Tell, 0, m), send(SendKind::Tell, 0, MsgSpec::quick(ids.next()))]
                        }
                        State::Stopping => {
                            let mut m = MsgSpec::m1(ids.next()).steps(vec![Step::Sleep(20)]);
                            m.entry_yield = false;
                            vec![send(SendKind::Tell, 0, m), Step::Stop(0)]
                        }
                        State::FullThenKill => {
                            let mut m = MsgSpec::m1(ids.next()).steps(vec![Step::Sleep(20)]);
                            m.entry_yield = false;
                            vec![send(SendKind::Tell, 0, m), send(SendKind::Tell, 0, MsgSpec::quick(ids.next())), Step::Sleep(5), Step::Kill(0)]
                        }
                        State::FullThenPanic => {
                            let mut m = MsgSpec::m1(ids.next()).steps(vec![Step::Sleep(5)]).out(Outcome::Panic(8));
                            m.entry_yield = false;
                            vec![send(SendKind::Tell, 0, m), send(SendKind::Tell, 0, MsgSpec::quick(ids.next()))]
                        }
                        State::DeadStop => vec![Step::Stop(0)],
                        State::DeadKill => vec![Step::Kill(0)],
                        State::DeadPanic => vec![send(SendKind::Tell, 0, MsgSpec::quick(ids.next()).out(Outcome::Panic(9)))],
                        State::DeadStartErr => vec![],
                    };
                    if !setter.is_empty() {
                        clients.push(Program::new(vec![(0, 0)], setter));
                    }
                    for (k, mk) in [(k1, mk1), (k2, mk2)] {
                        let mut steps = vec![];
                        let mut slot = 0;
                        if erased && *mk == MsgKind::M1 && *k != SendKind::AskJoin {
                            steps.push(Step::Erase { from: 0, to: 1, kind: if k.is_ask() { EraseKind::Ask } else { EraseKind::Tell }, owned: false });
                            steps.push(Step::Fuse);
                            slot = 1;
                        }
                        let mut m = MsgSpec::m1(ids.next()).kind(mk.clone());
                        if *mk == MsgKind::MR {
                            m = m.out(Outcome::Err(5));
                        }
                        steps.push(send(*k, slot, m));
                        clients.push(Program::new(vec![(0, 0)], steps));
                    }
                    n += 1;
                    out.push(scn(format!("c13-{n}-{state:?}-{k1:?}/{mk1:?}-{k2:?}/{mk2:?}-erased{erased}"), vec![a], clients, &[]));
                }
            }
        }
    }
    // 1100 failed deliveries in a row to one ended actor, by one sender, within a millisecond
    for kind in [SendKind::Tell, SendKind::Ask] {
        let mut ids = Ids(0);
        let a = ActorSpec::plain(2);
        let mut steps: Vec<Step> = vec![Step::Stop(0), Step::Sleep(5)];
        for _ in 0..1100 {
            steps.push(send(kind, 0, MsgSpec::quick(ids.next())));
            steps.push(Step::Fuse);
        }
        let c0 = Program::new(vec![(0, 0)], steps);
        n += 1;
        out.push(scn(format!("c13-{n}-1100-failures-in-a-row-{kind:?}"), vec![a], vec![c0], &[]));
    }
    with_fused(out)
}

// ------------------------------------------------------------------ C14 / C15: ask cycles

#[derive(Clone, Copy, Debug, PartialEq)]
enum EdgeHook {
    Handler,
    OnStart,
    OnRun,
    OnStop,
    /// on_stop run as clean-up after on_run returned an error
    OnStopAfterRunErr,
}

#[derive(Clone, Copy, Debug, PartialEq)]
enum EdgeKind {
    Ask,
    AskTO,
    Erased,
    /// ask_join: the reply is the JoinHandle of a task the callee spawns
    Join,
}

/// steps that make the running hook ask actor `to` with message `m`
fn ask_steps(kind: EdgeKind, to: usize, m: MsgSpec) -> Vec<Step> {
    let reg = REG_BASE + to as u8;
    match kind {
        EdgeKind::Ask => vec![send(SendKind::Ask, reg, m)],
        EdgeKind::AskTO => vec![send(SendKind::AskTO(30), reg, m)],
        EdgeKind::Join => vec![send(SendKind::AskJoin, reg, m.kind(MsgKind::MJ))],
        EdgeKind::Erased => vec![
            Step::CloneH { from: reg, to: 5 },
            Step::Erase { from: 5, to: 6, kind: EraseKind::Ask, owned: true },
            send(SendKind::Ask, 6, m),
            Step::DropH(6),
        ],
    }
}

/// n actors in a ring; actor i asks actor i+1 from the given hook; every edge has its own trigger,
/// so the schedule decides which asks overlap (a cycle exists only when all of them are in flight).
fn ring(n: usize, hooks: &[EdgeHook], kinds: &[EdgeKind], name: String) -> Scenario {
    let mut ids = Ids(0);
    let mut actors = Vec::new();
    let mut clients = Vec::new();
    for i in 0..n {
        let to = (i + 1) % n;
        let mut plain = MsgSpec::quick(ids.next());
        plain.entry_yield = false;
        let asking = ask_steps(kinds[i], to, plain);
        let mut a = ActorSpec::plain(2);
        match hooks[i] {
            EdgeHook::Handler => {
                let go = MsgSpec::m1(ids.next()).steps(asking);
                clients.push(Program::new(vec![(0, i)], vec![send(SendKind::Tell, 0, go)]));
            }
            EdgeHook::OnStart => {
                a.on_start = HookSpec { entry_yield: true, steps: asking, out: Outcome::Ok, free: false };
            }
            EdgeHook::OnRun => {
                a.on_run = vec![HookSpec { entry_yield: false, steps: [vec![Step::Yield], asking].concat(), out: Outcome::OkFalse, free: false }];
            }
            EdgeHook::OnStop => {
                a.on_stop = HookSpec { entry_yield: true, steps: asking, out: Outcome::Ok, free: false };
                clients.push(Program::new(vec![(0, i)], vec![Step::Stop(0)]));
            }
            EdgeHook::OnStopAfterRunErr => {
                a.on_run = vec![HookSpec { entry_yield: false, steps: vec![Step::Yield], out: Outcome::Err(9), free: false }];
                a.on_stop = HookSpec { entry_yield: true, steps: asking, out: Outcome::Ok, free: false };
            }
        }
        actors.push(a);
    }
    let mut s = scn(name, actors, clients, &["quiet"]);
    s.registry = true;
    s
}

/// an actor that takes no part and offers the scheduler no choice (its hooks run free)
fn bystander() -> ActorSpec {
    let mut a = ActorSpec::plain(1);
    a.free_handlers = true;
    a.on_start = HookSpec { entry_yield: false, steps: vec![], out: Outcome::Ok, free: true };
    a.on_stop = HookSpec { entry_yield: false, steps: vec![], out: Outcome::Ok, free: true };
    a
}

/// a nested cycle among the actors `members` (indices into a population of `total` actors, the others being
/// bystanders): members[0] asks members[1] asks ... asks members[0]
fn spread_chain(total: usize, members: &[usize], name: String, close: bool) -> Scenario {
    let mut ids = Ids(0);
    let mut inner = MsgSpec::m1(ids.next());
    let n = members.len();
    let last = if close { n } else { n - 1 };
    for i in (0..last).rev() {
        let to = members[(i + 1) % n];
        inner = MsgSpec::m1(ids.next()).steps(ask_steps(EdgeKind::Ask, to, inner));
    }
    let actors: Vec<ActorSpec> = (0..total).map(|i| if members.contains(&i) { ActorSpec::plain(2) } else { bystander() }).collect();
    let c0 = Program::new(vec![(0, members[0])], vec![send(SendKind::Tell, 0, inner)]);
    let mut s = scn(name, actors, vec![c0], &["quiet", "bound=2", "maxexecs=3000"]);
    s.registry = true;
    s
}

/// one trigger; the asks are nested: A0's handler asks A1, whose handler asks A2, ... whose handler asks A0
fn chain(n: usize, kinds: &[EdgeKind], name: String) -> Scenario {
    let mut ids = Ids(0);
    // innermost first: the ask that closes the cycle carries a plain message
    let mut inner = MsgSpec::m1(ids.next());
    for i in (0..n).rev() {
        let to = (i + 1) % n;
        let steps = ask_steps(kinds[i], to, inner);
        inner = MsgSpec::m1(ids.next()).steps(steps);
    }
    let actors = (0..n).map(|_| ActorSpec::plain(2)).collect();
    let c0 = Program::new(vec![(0, 0)], vec![send(SendKind::Tell, 0, inner)]);
    let c1 = Program::new(vec![(0, 0)], vec![send(SendKind::Ask, 0, MsgSpec::m1(ids.next()))]);
    let mut s = scn(name, actors, vec![c0, c1], &["quiet"]);
    s.registry = true;
    s
}

fn gen_c14(lvl: u8) -> Vec<Scenario> {
    let thorough = lvl >= 1;
    let xl = lvl >= 2;
    let _ = xl;
    let mut out = Vec::new();
    let mut n = 0;
    let hooks = [EdgeHook::Handler, EdgeHook::OnStart, EdgeHook::OnRun, EdgeHook::OnStop, EdgeHook::OnStopAfterRunErr];
    let kinds = [EdgeKind::Ask, EdgeKind::AskTO, EdgeKind::Erased];
    let maxn = if thorough { 4 } else { 3 };
    // rings whose mailboxes are full while the edges are created: every actor has capacity 1 and a filler queued,
    // so each ask of the ring waits for a slot before it is even delivered
    for len in 2..=3usize {
        for kind in kinds {
            let mut s = ring(len, &vec![EdgeHook::Handler; len], &vec![kind; len], String::new());
            let mut next_id = 1000;
            for a in s.actors.iter_mut() {
                a.cap = Some(1);
            }
            for c in s.clients.iter_mut() {
                next_id += 1;
                c.steps.push(Step::Fuse);
                c.steps.push(send(SendKind::Tell, 0, MsgSpec::quick(next_id)));
            }
            n += 1;
            s.name = format!("c14-{n}-fullring{len}-{kind:?}");
            out.push(s);
        }
    }
    for len in 1..=maxn {
        // every assignment of edges to hooks (plain ask)
        for hs in seqs(&hooks, len).into_iter().filter(|h| h.len() == len) {
            if len == 4 && hs.iter().filter(|h| **h != EdgeHook::Handler).count() > 1 {
                continue;
            }
            n += 1;
            out.push(ring(len, &hs, &vec![EdgeKind::Ask; len], format!("c14-{n}-ring{len}-{hs:?}")));
        }
        // every assignment of ask flavours (handler edges), ring and chain
        for ks in seqs(&kinds, len).into_iter().filter(|k| k.len() == len) {
            if len == 4 && ks.iter().filter(|k| **k != EdgeKind::Ask).count() > 1 {
                continue;
            }
            n += 1;
            out.push(ring(len, &vec![EdgeHook::Handler; len], &ks, format!("c14-{n}-ring{len}-{ks:?}")));
            n += 1;
            out.push(chain(len, &ks, format!("c14-{n}-chain{len}-{ks:?}")));
        }
    }
    // rings in which one edge (or every edge) is an ask_join; ring of one = ask_join to oneself
    for len in 1..=3usize {
        for j in 0..=len {
            let mut ks = vec![EdgeKind::Ask; len];
            if j < len {
                ks[j] = EdgeKind::Join;
            } else if len > 1 {
                ks = vec![EdgeKind::Join; len];
            } else {
                continue;
            }
            n += 1;
            out.push(ring(len, &vec![EdgeHook::Handler; len], &ks, format!("c14-{n}-ring{len}-{ks:?}")));
        }
    }
    // long nested chains: A0 asks A1 asks ... asks A(n-1), whose handler asks A0
    // a 3-cycle whose members were spawned 64 (and 128) actors apart, among bystanders
    for gap in [64usize, 128] {
        n += 1;
        out.push(spread_chain(gap + 2, &[0, gap, gap + 1], format!("c14-{n}-cycle3-among-{}-actors-ids-{gap}-apart", gap + 2), true));
    }
    for len in if thorough { vec![5usize, 6, 8, 10, 12, 20] } else { vec![5usize, 8, 10, 12] } {
        n += 1;
        out.push(chain(len, &vec![EdgeKind::Ask; len], format!("c14-{n}-chain{len}-long")));
    }
    // two rings one after the other in the same process (t=0 and t=20): the second cycle is detected like the first
    for kind in [EdgeKind::Ask, EdgeKind::Erased] {
        let mut ids = Ids(0);
        let mut clients = Vec::new();
        for (base, delay) in [(0usize, 0u32), (2, 20)] {
            for i in 0..2usize {
                let to = base + (i + 1) % 2;
                let mut plain = MsgSpec::quick(ids.next());
                plain.entry_yield = false;
                let go = MsgSpec::m1(ids.next()).steps(ask_steps(kind, to, plain));
                let mut steps = Vec::new();
                if delay > 0 {
                    steps.push(Step::Sleep(delay));
                }
                steps.push(send(SendKind::Tell, 0, go));
                clients.push(Program::new(vec![(0, base + i)], steps));
            }
        }
        n += 1;
        let mut s = scn(format!("c14-{n}-two-rings-in-a-row-{kind:?}"), (0..4).map(|_| ActorSpec::plain(2)).collect(), clients, &["quiet"]);
        s.registry = true;
        out.push(s);
    }
    // a nested 2-cycle (A0 asks A1, whose handler asks A0) while a third actor's ask to A1 comes and goes
    for kind in [EdgeKind::Ask, EdgeKind::AskTO] {
        for slow_bystander in [false, true] {
            let mut ids = Ids(0);
            let closing = MsgSpec::m1(ids.next());
            let mid = MsgSpec::m1(ids.next()).steps(ask_steps(EdgeKind::Ask, 0, closing));
            let start = MsgSpec::m1(ids.next()).steps(ask_steps(EdgeKind::Ask, 1, mid));
            let mut side = MsgSpec::m1(ids.next());
            if slow_bystander {
                side = side.steps(vec![Step::Yield, Step::Yield]);
            }
            let from_x = MsgSpec::m1(ids.next()).steps(ask_steps(kind, 1, side));
            let c0 = Program::new(vec![(0, 0)], vec![send(SendKind::Tell, 0, start)]);
            let c1 = Program::new(vec![(0, 2)], vec![send(SendKind::Tell, 0, from_x)]);
            n += 1;
            let mut s = scn(format!("c14-{n}-chain2-with-bystander-asker-{kind:?}-slow{slow_bystander}"), (0..3).map(|_| ActorSpec::plain(3)).collect(), vec![c0, c1], &["quiet"]);
            s.registry = true;
            out.push(s);
        }
    }
    // a nested 2-cycle disturbed from outside while A0's ask is in flight: A0 is killed (a kill does not interrupt a
    // handler, A0 keeps waiting), or a bystander's bounded ask to A1 expires; then A1 asks A0 back
    for disturb in 0..3 {
        let mut ids = Ids(0);
        let closing = MsgSpec::m1(ids.next());
        let mid = MsgSpec::m1(ids.next()).steps([vec![Step::Sleep(10)], ask_steps(EdgeKind::Ask, 0, closing)].concat());
        let start = MsgSpec::m1(ids.next()).steps(ask_steps(EdgeKind::Ask, 1, mid));
        let c0 = Program::new(vec![(0, 0)], vec![send(SendKind::Tell, 0, start)]);
        let c1 = match disturb {
            0 => Program::new(vec![(0, 0)], vec![Step::Sleep(5), Step::Kill(0)]),
            1 => Program::new(vec![(0, 1)], vec![Step::Sleep(1), send(SendKind::AskTO(5), 0, MsgSpec::m1(ids.next()))]),
            _ => Program::new(vec![(0, 1)], vec![Step::Sleep(1), send(SendKind::TellTO(5), 0, MsgSpec::m1(ids.next())), send(SendKind::AskTO(3), 0, MsgSpec::m1(ids.next()))]),
        };
        n += 1;
        let mut s = scn(format!("c14-{n}-chain2-disturbed-{}", ["asker-killed", "bystander-ask-expires", "bystander-tell-and-ask"][disturb]), (0..2).map(|_| ActorSpec::plain(3)).collect(), vec![c0, c1], &["quiet"]);
        s.registry = true;
        out.push(s);
    }
    // an ask that timed out while still queued, a retry to the same callee, and then the callee asks back:
    // the late answer to the abandoned ask must not hide the edge of the retry
    for flavour in 0..2 {
        let mut ids = Ids(0);
        let mut busy = MsgSpec::m1(ids.next()).steps(vec![Step::Sleep(20)]);
        busy.entry_yield = false;
        let q1 = MsgSpec::quick(ids.next());
        let echo = MsgSpec::quick(ids.next());
        let q2 = MsgSpec::m1(ids.next()).steps(vec![send(SendKind::Ask, REG_BASE, echo)]);
        let first = if flavour == 0 { send(SendKind::AskTO(10), REG_BASE + 1, q1) } else { send(SendKind::AskTO(5), REG_BASE + 1, q1) };
        let go = MsgSpec::m1(ids.next()).steps(vec![first, send(SendKind::Ask, REG_BASE + 1, q2)]);
        let c0 = Program::new(vec![(0, 1)], vec![send(SendKind::Tell, 0, busy)]);
        let c1 = Program::new(vec![(0, 0)], vec![Step::Sleep(1), send(SendKind::Tell, 0, go)]);
        n += 1;
        let mut s = scn(format!("c14-{n}-retry-after-timeout-{flavour}"), vec![ActorSpec::plain(3), ActorSpec::plain(3)], vec![c0, c1], &["quiet"]);
        s.registry = true;
        out.push(s);
    }
    out
}

fn gen_c15(lvl: u8) -> Vec<Scenario> {
    let thorough = lvl >= 1;
    let xl = lvl >= 2;
    let _ = xl;
    // the rings: in most schedules the asks do not all overlap, and then nobody may panic
    let mut out = gen_c14(lvl);
    for s in out.iter_mut() {
        s.name = s.name.replace("c14-", "c15-");
    }
    let mut n = out.len();
    // acyclic in time, cyclic in topology: A asks B; B's *next* message makes B ask A
    #[derive(Clone, Copy, Debug)]
    enum End {
        Reply,
        Timeout,
        CalleeKilled,
        CalleePanics,
        OnRunCancelled,
    }
    for end in [End::Reply, End::Timeout, End::CalleeKilled, End::CalleePanics, End::OnRunCancelled] {
        for three in [false, true] {
            for erased in [false, true] {
                if three && erased && !thorough {
                    continue;
                }
                let mut ids = Ids(0);
                let na = if three { 3 } else { 2 };
                let kind = if erased { EdgeKind::Erased } else { EdgeKind::Ask };
                // ping: A0 -> A1
                let mut ping = MsgSpec::quick(ids.next());
                match end {
                    End::Reply => {}
                    End::Timeout => ping = ping.steps(vec![Step::Sleep(20)]),
                    End::CalleeKilled => ping = ping.steps(vec![Step::Yield, Step::Kill(SELF_SLOT), Step::Yield]),
                    End::CalleePanics => ping = ping.steps(vec![Step::Yield]).out(Outcome::Panic(5)),
                    End::OnRunCancelled => ping = ping.steps(vec![Step::Yield, Step::Yield]),
                }
                let a0_asks = match end {
                    End::Timeout => vec![send(SendKind::AskTO(10), REG_BASE + 1, ping)],
                    _ => ask_steps(kind, 1, ping),
                };
                let mut actors: Vec<ActorSpec> = (0..na).map(|_| ActorSpec::plain(3)).collect();
                let mut clients = Vec::new();
                if let End::OnRunCancelled = end {
                    actors[0].on_run = vec![HookSpec { entry_yield: false, steps: [vec![Step::Yield], a0_asks].concat(), out: Outcome::OkFalse, free: false }];
                    // a message to A0 cancels the on_run that is waiting for the reply
                    clients.push(Program::new(vec![(0, 0)], vec![send(SendKind::Tell, 0, MsgSpec::m1(ids.next()))]));
                } else {
                    let go = MsgSpec::m1(ids.next()).steps(a0_asks);
                    clients.push(Program::new(vec![(0, 0)], vec![send(SendKind::Tell, 0, go)]));
                }
                // B's next message: ask back towards A0 (directly, or through a third actor)
                let echo = MsgSpec::quick(ids.next());
                let back = if three {
                    let fwd = MsgSpec::m1(ids.next()).steps(ask_steps(EdgeKind::Ask, 0, echo));
                    MsgSpec::m1(ids.next()).steps(ask_steps(kind, 2, fwd))
                } else {
                    MsgSpec::m1(ids.next()).steps(ask_steps(kind, 0, echo))
                };
                let asker_actor = if matches!(end, End::CalleeKilled | End::CalleePanics) && three { 2 } else { 1 };
                let _ = asker_actor;
                clients.push(Program::new(vec![(0, 1)], vec![send(SendKind::Tell, 0, back)]));
                // a non-actor caller asking into the topology
                clients.push(Program::new(vec![(0, 0), (1, 1)], vec![send(SendKind::Ask, 1, MsgSpec::quick(ids.next())), send(SendKind::Ask, 0, MsgSpec::quick(ids.next()))]));
                n += 1;
                let mut s = scn(format!("c15-{n}-acyclic-{end:?}-three{three}-erased{erased}"), actors, clients, &["quiet"]);
                s.registry = true;
                out.push(s);
            }
        }
    }
    // two asks issued together by one handler (join!); the one issued first finishes first; later that callee asks back
    for timed in [false, true] {
        let mut ids = Ids(0);
        let quick = MsgSpec::quick(ids.next());
        let slow = MsgSpec::m1(ids.next()).steps(vec![Step::Yield]);
        let go = MsgSpec::m1(ids.next()).steps(vec![Step::JoinAsk { slot_a: REG_BASE + 1, msg_a: quick, slot_b: REG_BASE + 2, msg_b: slow }]);
        let back = MsgSpec::m1(ids.next()).steps(ask_steps(EdgeKind::Ask, 0, MsgSpec::quick(ids.next())));
        let c0 = Program::new(vec![(0, 0)], vec![send(SendKind::Ask, 0, go)]);
        // the ask back comes only after the first client's ask (and so both joined asks) has finished
        let c1 = if timed {
            Program::new(vec![(0, 1)], vec![Step::Sleep(10), send(SendKind::Tell, 0, back)])
        } else {
            Program::new(vec![(0, 1)], vec![Step::WaitSig(0), send(SendKind::Tell, 0, back)])
        };
        let mut c0 = c0;
        if !timed {
            c0.steps.push(Step::Signal(0));
        }
        n += 1;
        let mut s = scn(format!("c15-{n}-joined-asks-timed{timed}"), vec![ActorSpec::plain(3), ActorSpec::plain(3), ActorSpec::plain(3)], vec![c0, c1], &["quiet"]);
        s.registry = true;
        out.push(s);
    }
    // the asked actor is busy, its ask-back message is queued BEFORE the ping, and the ping's asker gives up
    // (timeout / on_run cancelled) long before the busy handler ends: the ping is never answered in between
    for how in 0..2 {
        let mut ids = Ids(0);
        let mut busy = MsgSpec::m1(ids.next()).steps(vec![Step::Sleep(20)]);
        busy.entry_yield = false;
        let back = MsgSpec::m1(ids.next()).steps(ask_steps(EdgeKind::Ask, 0, MsgSpec::quick(ids.next())));
        let ping = MsgSpec::quick(ids.next());
        let mut actors = vec![ActorSpec::plain(3), ActorSpec::plain(3)];
        let mut clients = vec![Program { slots: vec![(0, 1)], steps: vec![send(SendKind::Tell, 0, busy), send(SendKind::Tell, 0, back)], auto_yield: false, free: false }];
        if how == 0 {
            let go = MsgSpec::m1(ids.next()).steps(vec![send(SendKind::AskTO(10), REG_BASE + 1, ping)]);
            clients.push(Program::new(vec![(0, 0)], vec![Step::Sleep(1), send(SendKind::Tell, 0, go)]));
        } else {
            actors[0].on_run = vec![HookSpec { entry_yield: false, steps: vec![Step::Sleep(1), send(SendKind::Ask, REG_BASE + 1, ping)], out: Outcome::OkFalse, free: false }];
            clients.push(Program::new(vec![(0, 0)], vec![Step::Sleep(5), send(SendKind::Tell, 0, MsgSpec::quick(ids.next()))]));
        }
        n += 1;
        let mut s = scn(format!("c15-{n}-gave-up-unanswered-{how}"), actors, clients, &["quiet"]);
        s.registry = true;
        out.push(s);
    }
    // a plain chain (no cycle) X asks A asks B, where A and B were spawned 64 (128) actors apart: nobody panics -
    // whether X asks first (nested) or A is already waiting for B when X asks
    for gap in [64usize, 128] {
        n += 1;
        out.push(spread_chain(gap + 2, &[gap + 1, 0, gap], format!("c15-{n}-chain3-no-cycle-ids-{gap}-apart-nested"), false));
        let mut ids = Ids(0);
        let slow = MsgSpec::m1(ids.next()).steps(vec![Step::Sleep(10)]);
        let go1 = MsgSpec::m1(ids.next()).steps(ask_steps(EdgeKind::Ask, gap, slow));
        let go2 = MsgSpec::m1(ids.next()).steps(ask_steps(EdgeKind::Ask, 0, MsgSpec::quick(ids.next())));
        let actors: Vec<ActorSpec> = (0..gap + 2).map(|i| if i == 0 || i >= gap { ActorSpec::plain(2) } else { bystander() }).collect();
        let c0 = Program::new(vec![(0, 0)], vec![send(SendKind::Tell, 0, go1)]);
        let c1 = Program::new(vec![(0, gap + 1)], vec![Step::Sleep(5), send(SendKind::Tell, 0, go2)]);
        n += 1;
        let mut sc = scn(format!("c15-{n}-chain3-no-cycle-ids-{gap}-apart-late-asker"), actors, vec![c0, c1], &["quiet", "bound=2", "maxexecs=3000"]);
        sc.registry = true;
        out.push(sc);
    }
    // a pipeline of 10 (12) nested asks, none of them closing a cycle, and an outsider that asks its head while all of
    // them are in flight: nobody panics
    for len in [10usize, 12] {
        let mut ids = Ids(0);
        let mut inner = MsgSpec::m1(ids.next()).steps(vec![Step::Sleep(10)]);
        for i in (0..len - 1).rev() {
            inner = MsgSpec::m1(ids.next()).steps(ask_steps(EdgeKind::Ask, i + 1, inner));
        }
        let probe = MsgSpec::m1(ids.next()).steps(ask_steps(EdgeKind::Ask, 0, MsgSpec::quick(ids.next())));
        let actors: Vec<ActorSpec> = (0..len + 1).map(|_| ActorSpec::plain(2)).collect();
        let c0 = Program::new(vec![(0, 0)], vec![send(SendKind::Tell, 0, inner)]);
        let c1 = Program::new(vec![(0, len)], vec![Step::Sleep(5), send(SendKind::Tell, 0, probe)]);
        n += 1;
        let mut sc = scn(format!("c15-{n}-pipeline-of-{len}-probed-by-an-outsider"), actors, vec![c0, c1], &["quiet", "bound=2", "maxexecs=3000"]);
        sc.registry = true;
        out.push(sc);
    }
    // the acyclic-in-time pattern (A asks B and is answered; B's next message asks A) after a long history of asks
    // between the two (300, and 66 000 - more than a 16-bit counter holds)
    for warm in [300u32, 66_000] {
        let mut ids = Ids(0);
        let ping = MsgSpec::quick(ids.next());
        // (B's second message is only sent once the warm-up is over: during it A really is waiting for B)
        let go = MsgSpec::m1(ids.next()).steps(vec![Step::WarmAsks { slot: REG_BASE + 1, n: warm }, Step::Signal(0), send(SendKind::Ask, REG_BASE + 1, ping)]);
        let echo = MsgSpec::quick(ids.next());
        let back = MsgSpec::m1(ids.next()).steps(ask_steps(EdgeKind::Ask, 0, echo));
        let c0 = Program::new(vec![(0, 0)], vec![send(SendKind::Tell, 0, go)]);
        let c1 = Program::new(vec![(0, 1)], vec![Step::WaitSig(0), send(SendKind::Tell, 0, back)]);
        n += 1;
        // (an execution with 66 000 asks takes a second or more: three schedules of it, the full tree of the short one)
        let cap = if warm > 1000 { "maxexecs=3" } else { "maxexecs=400" };
        let mut sc = scn(format!("c15-{n}-acyclic-after-{warm}-asks"), vec![ActorSpec::plain(3), ActorSpec::plain(3)], vec![c0, c1], &["quiet", "bound=2", cap, "fresh_process"]);
        sc.registry = true;
        out.push(sc);
    }
    // ask_join: once the JoinHandle has been handed over the caller waits for a task, not for the callee; when the
    // callee then asks the caller, that ask simply queues
    for slow_task in [false, true] {
        for erased_back in [false, true] {
            let mut ids = Ids(0);
            let mut job = MsgSpec::quick(ids.next()).kind(MsgKind::MJ);
            job.steps = if slow_task { vec![Step::Sleep(20)] } else { vec![Step::Yield, Step::Yield] };
            let go = MsgSpec::m1(ids.next()).steps(vec![send(SendKind::AskJoin, REG_BASE + 1, job)]);
            let echo = MsgSpec::quick(ids.next());
            let back = MsgSpec::m1(ids.next()).steps(ask_steps(if erased_back { EdgeKind::Erased } else { EdgeKind::Ask }, 0, echo));
            let c0 = Program::new(vec![(0, 0)], vec![send(SendKind::Tell, 0, go)]);
            let c1 = Program::new(vec![(0, 1)], vec![send(SendKind::Tell, 0, back)]);
            n += 1;
            let mut s = scn(format!("c15-{n}-join-pending-slow{slow_task}-erasedback{erased_back}"), vec![ActorSpec::plain(3), ActorSpec::plain(3)], vec![c0, c1], &["quiet"]);
            s.registry = true;
            out.push(s);
        }
    }
    // the ask is made inside a handler but awaited by a detached task: the handler's actor waits for nobody, and the
    // callee may ask it while serving the request
    for erased in [false, true] {
        for three in [false, true] {
            let mut ids = Ids(0);
            let echo = MsgSpec::quick(ids.next());
            // the request handled by A1 asks A0 back (directly, or through A2)
            let req = if three {
                let fwd = MsgSpec::m1(ids.next()).steps(ask_steps(EdgeKind::Ask, 0, echo));
                MsgSpec::m1(ids.next()).steps(ask_steps(EdgeKind::Ask, 2, fwd))
            } else {
                MsgSpec::m1(ids.next()).steps(ask_steps(EdgeKind::Ask, 0, echo))
            };
            let mut steps = Vec::new();
            if erased {
                steps.push(Step::CloneH { from: REG_BASE + 1, to: 5 });
                steps.push(Step::Erase { from: 5, to: 6, kind: EraseKind::Ask, owned: true });
                steps.push(Step::SpawnAsk { slot: 6, msg: req });
            } else {
                steps.push(Step::SpawnAsk { slot: REG_BASE + 1, msg: req });
            }
            let go = MsgSpec::m1(ids.next()).steps(steps);
            let c0 = Program::new(vec![(0, 0)], vec![send(SendKind::Tell, 0, go)]);
            let c1 = Program::new(vec![(0, 0), (1, 1)], vec![send(SendKind::Ask, 1, MsgSpec::quick(ids.next())), send(SendKind::Ask, 0, MsgSpec::quick(ids.next()))]);
            n += 1;
            let na = if three { 3 } else { 2 };
            let mut s = scn(format!("c15-{n}-detached-ask-erased{erased}-three{three}"), (0..na).map(|_| ActorSpec::plain(3)).collect(), vec![c0, c1], &["quiet"]);
            s.registry = true;
            out.push(s);
        }
    }
    // an ask whose future is destroyed by unwinding (a joined branch of the same handler panics)
    for callee_dies in [false, true] {
        let mut ids = Ids(0);
        let mut slow = MsgSpec::m1(ids.next()).steps(vec![Step::Yield, Step::Yield]);
        if callee_dies {
            // the callee never answers either: nothing but the asker's own clean-up can remove the edge
            slow = slow.out(Outcome::Panic(6));
        }
        let go = MsgSpec::m1(ids.next()).steps(vec![Step::JoinAskPanic { slot: REG_BASE + 1, msg: slow }]);
        let c0 = Program::new(vec![(0, 0)], vec![send(SendKind::Tell, 0, go)]);
        let c1 = Program::new(vec![(0, 1)], vec![send(SendKind::Ask, 0, MsgSpec::m1(ids.next()))]);
        n += 1;
        let mut s = scn(format!("c15-{n}-ask-unwound-calleedies{callee_dies}"), vec![ActorSpec::plain(3), ActorSpec::plain(3)], vec![c0, c1], &["quiet"]);
        s.registry = true;
        out.push(s);
    }
    out
}

// ------------------------------------------------------------------ C20: metrics

fn gen_c20(lvl: u8) -> Vec<Scenario> {
    let thorough = lvl >= 1;
    let xl = lvl >= 2;
    let _ = xl;
    let mut out = Vec::new();
    let mut n = 0;
    // (first in the list: whatever the time budget does to the tail of the list, these run)
    // one handler that takes more than a second of real time (durations are kept with full precision); in the thorough
    // tier also one of 4.5 s, more than 2^32 ns
    for busy in if thorough { vec![1050u32, 4500] } else { vec![1050u32] } {
        let mut ids = Ids(0);
        let mut m = MsgSpec::m1(ids.next()).steps(vec![Step::Busy(busy)]);
        m.entry_yield = false;
        let mut c0 = Program::new(vec![(0, 0)], vec![send(SendKind::Tell, 0, m), send(SendKind::Ask, 0, MsgSpec::quick(ids.next())), Step::Stop(0), Step::Sleep(10), Step::Metrics(0)]);
        c0.auto_yield = false;
        n += 1;
        out.push(scn(format!("c20-{n}-long-handler-{busy}ms"), vec![ActorSpec::plain(2)], vec![c0], &["metrics_build"]));
    }
    #[derive(Clone, Copy, Debug, PartialEq)]
    enum Hk {
        Fast,
        Busy,
        Panic,
        Yielding,
    }
    #[derive(Clone, Copy, Debug)]
    enum Cause {
        Stop,
        Kill,
        Drop,
        HandlerPanic,
        RunErr,
    }
    let hk = [Hk::Fast, Hk::Busy, Hk::Yielding];
    let maxlen = if thorough { 4 } else { 3 };
    for seq in seqs(&hk, maxlen) {
        for cause in [Cause::Stop, Cause::Kill, Cause::Drop, Cause::HandlerPanic, Cause::RunErr] {
            for readers in [1usize, 2] {
                if !thorough && readers == 2 && seq.len() > 2 {
                    continue;
                }
                let mut ids = Ids(0);
                let mut a = ActorSpec::plain(2);
                if let Cause::RunErr = cause {
                    a.on_run = vec![
                        HookSpec { entry_yield: false, steps: vec![Step::Sleep(10)], out: Outcome::OkTrue, free: false },
                        HookSpec { entry_yield: false, steps: vec![Step::Yield], out: Outcome::Err(4), free: false },
                    ];
                }
                let mut steps = Vec::new();
                let mut seqv: Vec<Hk> = seq.clone();
                if let Cause::HandlerPanic = cause {
                    seqv.push(Hk::Panic);
                }
                for (i, h) in seqv.iter().enumerate() {
                    let body = match h {
                        Hk::Fast | Hk::Panic => vec![],
                        Hk::Busy => vec![Step::Busy(2)],
                        Hk::Yielding => vec![Step::Yield],
                    };
                    let mut m = MsgSpec::m1(ids.next()).steps(body);
                    m.entry_yield = *h == Hk::Yielding;
                    if *h == Hk::Panic {
                        m = m.out(Outcome::Panic(3));
                    }
                    steps.push(send(if i % 2 == 0 { SendKind::Tell } else { SendKind::Ask }, 0, m));
                }
                steps.push(Step::Downgrade { from: 0, to: 1 });
                steps.push(match cause {
                    Cause::Stop => Step::Stop(0),
                    Cause::Kill => Step::Kill(0),
                    _ => Step::Metrics(0),
                });
                steps.push(Step::Sleep(20));
                steps.push(Step::Metrics(0));
                steps.push(Step::Metrics(1));
                let c0 = Program::new(vec![(0, 0)], steps);
                let mut clients = vec![c0];
                for r in 0..readers {
                    let via_weak = r == 1;
                    let mut rs = vec![];
                    if via_weak {
                        rs.push(Step::Downgrade { from: 0, to: 1 });
                    }
                    let slot = if via_weak { 1 } else { 0 };
                    rs.extend([Step::Metrics(slot), Step::Metrics(slot), Step::Sleep(30), Step::Metrics(slot)]);
                    if let Cause::Drop = cause {
                        rs.push(Step::DropH(0));
                    }
                    clients.push(Program::new(vec![(0, 0)], rs));
                }
                n += 1;
                out.push(scn(format!("c20-{n}-{seq:?}-{cause:?}-r{readers}"), vec![a], clients, &["metrics_build"]));
            }
        }
    }
    out
}

// ------------------------------------------------------------------ C16: erased handles (differential)

/// What an observer can see, with everything that only names the route removed.
pub fn project_c16(tr: &[Ev]) -> Vec<String> {
    let mut out = Vec::new();
    let mut hidden_ops: std::collections::HashSet<u32> = Default::default();
    for e in tr {
        match &e.k {
            EvK::Slot { .. } | EvK::Log { .. } | EvK::Quiet { .. } | EvK::Graph { .. } | EvK::DlCount { .. } | EvK::Harvest { .. } | EvK::LockPoisoned { .. } => {}
            EvK::OpStart { op, k, target, msg, slot, .. } => {
                // handle bookkeeping, and the upgrade that is part of an erasing prelude (slots >= 30)
                if matches!(k, OpK::Erase | OpK::CloneBoxed | OpK::CloneH | OpK::DropH | OpK::Downgrade) || (*k == OpK::Upgrade && *slot >= 30) {
                    hidden_ops.insert(*op);
                } else {
                    out.push(format!("t={} o={:?} start {:?} target={:?} msg={:?}", e.t, e.owner, k, target, msg));
                }
            }
            EvK::OpEnd { op, res } => {
                if !hidden_ops.contains(op) {
                    out.push(format!("t={} o={:?} end {:?}", e.t, e.owner, res));
                }
            }
            other => out.push(format!("t={} o={:?} {:?}", e.t, e.owner, other)),
        }
    }
    out
}

#[derive(Clone, Copy, Debug, PartialEq)]
enum Style {
    Owned,
    Borrowed,
    CloneBoxed,
    WeakRoundTrip,
}

/// Route every operation of a direct program (which uses slot 0 for its strong handle, slot 1 for a weak one,
/// slot 2 for an upgraded one) through type-erased wrappers.
fn erase_program(p: &Program, style: Style) -> Program {
    let uses = |f: &dyn Fn(&Step) -> bool| p.steps.iter().any(|s| f(s) || matches!(s, Step::SendThen { other, .. } if f(other)));
    let is_tell = |s: &Step| matches!(s, Step::Send { kind: SendKind::Tell | SendKind::TellTO(_), slot: 0, .. } | Step::SendThen { kind: SendKind::Tell | SendKind::TellTO(_), slot: 0, .. });
    let is_ask = |s: &Step| matches!(s, Step::Send { kind: SendKind::Ask | SendKind::AskTO(_), slot: 0, .. } | Step::SendThen { kind: SendKind::Ask | SendKind::AskTO(_), slot: 0, .. });
    let need_tell = uses(&is_tell);
    let need_ask = uses(&is_ask);
    let (t, a, c): (u8, u8, u8) = (10, 11, 12);
    let mut pre: Vec<Step> = Vec::new();
    let mut boxes: Vec<(u8, EraseKind)> = Vec::new();
    if need_tell {
        boxes.push((t, EraseKind::Tell));
    }
    if need_ask {
        boxes.push((a, EraseKind::Ask));
    }
    if boxes.is_empty() {
        boxes.push((c, EraseKind::Ctl));
    }
    for (i, (slot, kind)) in boxes.iter().enumerate() {
        let last = i + 1 == boxes.len();
        let owned = style == Style::Owned && last;
        pre.push(Step::Erase { from: 0, to: *slot, kind: *kind, owned });
    }
    if style != Style::Owned {
        pre.push(Step::DropH(0));
    }
    let mut live: Vec<u8> = boxes.iter().map(|b| b.0).collect();
    match style {
        Style::CloneBoxed => {
            for s in live.iter_mut() {
                pre.push(Step::CloneBoxed { from: *s, to: *s + 10 });
                pre.push(Step::DropH(*s));
                *s += 10;
            }
        }
        Style::WeakRoundTrip => {
            for s in live.iter_mut() {
                pre.push(Step::Downgrade { from: *s, to: *s + 20 });
                pre.push(Step::Upgrade { from: *s + 20, to: *s + 10 });
                pre.push(Step::DropH(*s));
                pre.push(Step::DropH(*s + 20));
                *s += 10;
            }
        }
        _ => {}
    }
    let off = if matches!(style, Style::CloneBoxed | Style::WeakRoundTrip) { 10 } else { 0 };
    let tslot = t + off;
    let aslot = a + off;
    let cslot = live[0];
    let map = |s: &Step| -> Vec<Step> {
        match s {
            Step::Send { kind, slot: 0, msg } => vec![Step::Send { kind: *kind, slot: if kind.is_ask() { aslot } else { tslot }, msg: msg.clone() }],
            Step::SendThen { kind, slot: 0, msg, other, drop_first } => {
                let o2 = match other.as_ref() {
                    Step::Send { kind: k2, slot: 0, msg: m2 } => Step::Send { kind: *k2, slot: if k2.is_ask() { aslot } else { tslot }, msg: m2.clone() },
                    x => x.clone(),
                };
                vec![Step::SendThen { kind: *kind, slot: if kind.is_ask() { aslot } else { tslot }, msg: msg.clone(), other: Box::new(o2), drop_first: *drop_first }]
            }
            Step::Stop(0) => vec![Step::Stop(cslot)],
            Step::Kill(0) => vec![Step::Kill(cslot)],
            Step::IsAlive(0) => vec![Step::IsAlive(cslot)],
            Step::Ident(0) => vec![Step::Ident(cslot)],
            Step::Downgrade { from: 0, to } => vec![Step::Downgrade { from: cslot, to: *to }],
            Step::DropH(0) => {
                let mut v = Vec::new();
                for (i, s) in live.iter().enumerate() {
                    if i > 0 {
                        v.push(Step::Fuse);
                    }
                    v.push(Step::DropH(*s));
                }
                v
            }
            other => vec![other.clone()],
        }
    };
    let mut steps: Vec<Step> = Vec::new();
    for s in pre {
        steps.push(s);
        steps.push(Step::Fuse);
    }
    for s in &p.steps {
        steps.extend(map(s));
    }
    Program { slots: p.slots.clone(), steps, auto_yield: p.auto_yield, free: p.free }
}

pub fn gen_c16(lvl: u8) -> Vec<(Scenario, Vec<Scenario>)> {
    let thorough = lvl >= 1;
    let mut groups = Vec::new();
    let mut n = 0;
    #[derive(Clone, Copy, Debug, PartialEq)]
    enum E {
        Tell,
        Ask,
        TellTO,
        AskTO,
        Stop,
        Kill,
        IsAlive,
        Ident,
        Drop,
    }
    let alpha = [E::Tell, E::Ask, E::TellTO, E::AskTO, E::Stop, E::Kill, E::IsAlive, E::Drop];
    let mut progs = seqs(&alpha, if thorough { 3 } else { 2 });
    progs.retain(|p| match p.iter().position(|o| *o == E::Drop) {
        Some(i) => i + 1 == p.len(),
        None => true,
    });
    let styles = [Style::Owned, Style::Borrowed, Style::CloneBoxed, Style::WeakRoundTrip];
    let mk = |p: &Vec<E>, slow: bool, ids: &mut Ids| -> Program {
        let body = if slow { vec![Step::Sleep(20)] } else { vec![] };
        let steps = p
            .iter()
            .map(|o| match o {
                E::Tell => send(SendKind::Tell, 0, MsgSpec::m1(ids.next()).steps(body.clone())),
                E::Ask => send(SendKind::Ask, 0, MsgSpec::m1(ids.next()).steps(body.clone())),
                E::TellTO => send(SendKind::TellTO(10), 0, MsgSpec::m1(ids.next()).steps(body.clone())),
                E::AskTO => send(SendKind::AskTO(10), 0, MsgSpec::m1(ids.next()).steps(body.clone())),
                E::Stop => Step::Stop(0),
                E::Kill => Step::Kill(0),
                E::IsAlive => Step::IsAlive(0),
                E::Ident => Step::Ident(0),
                E::Drop => Step::DropH(0),
            })
            .collect();
        Program::new(vec![(0, 0)], steps)
    };
    let mut push_group = |name: String, actor: ActorSpec, base: Vec<Program>, groups: &mut Vec<(Scenario, Vec<Scenario>)>| {
        let b = scn(format!("{name}#direct"), vec![actor.clone()], base.clone(), &[]);
        let mut vars = Vec::new();
        for st in styles {
            // erase the first client, then both
            let v1: Vec<Program> = base.iter().enumerate().map(|(i, p)| if i == 0 { erase_program(p, st) } else { p.clone() }).collect();
            vars.push(scn(format!("{name}#{st:?}-c0"), vec![actor.clone()], v1, &[]));
            if base.len() > 1 {
                let v2: Vec<Program> = base.iter().map(|p| erase_program(p, st)).collect();
                vars.push(scn(format!("{name}#{st:?}-all"), vec![actor.clone()], v2, &[]));
            }
        }
        groups.push((b, vars));
    };
    for slow in [false, true] {
        for (i, p1) in progs.iter().enumerate() {
            for p2 in progs.iter().skip(i) {
                if p1.len() + p2.len() > if thorough { 4 } else { 3 } {
                    continue;
                }
                let has_to = p1.iter().chain(p2.iter()).any(|o| matches!(o, E::TellTO | E::AskTO));
                if has_to != slow {
                    continue;
                }
                let mut ids = Ids(0);
                let base = vec![mk(p1, slow, &mut ids), mk(p2, slow, &mut ids)];
                let mut a = ActorSpec::plain(1);
                a.on_start = gated(Outcome::Ok);
                a.on_stop = gated(Outcome::Ok);
                n += 1;
                push_group(format!("c16-{n}-{p1:?}|{p2:?}{}", if slow { "-slow" } else { "" }), a, base, &mut groups);
            }
        }
    }
    // weak handles around the end of the actor
    for cause in 0..3 {
        for keep in [true, false] {
            let mut ids = Ids(0);
            let c0 = Program::new(
                vec![(0, 0)],
                vec![
                    Step::Downgrade { from: 0, to: 1 },
                    send(SendKind::Tell, 0, MsgSpec::m1(ids.next())),
                    match cause {
                        0 => Step::Stop(0),
                        1 => Step::Kill(0),
                        _ => Step::IsAlive(0),
                    },
                    Step::Upgrade { from: 1, to: 2 },
                    Step::IsAlive(1),
                    Step::Sleep(10),
                    Step::Upgrade { from: 1, to: 3 },
                    Step::IsAlive(1),
                    Step::IsAlive(3),
                    Step::Ident(3),
                    Step::Stop(3),
                ],
            );
            let c1 = Program::new(vec![(0, 0)], if keep { vec![Step::IsAlive(0)] } else { vec![Step::DropH(0)] });
            let mut a = ActorSpec::plain(2);
            a.on_stop = gated(Outcome::Ok);
            n += 1;
            push_group(format!("c16-{n}-weak-cause{cause}-keep{keep}"), a, vec![c0, c1], &mut groups);
        }
    }
    // futures created but not awaited at once
    for drop_first in [false, true] {
        for first in [SendKind::Tell, SendKind::Ask] {
            let mut ids = Ids(0);
            let m1 = MsgSpec::m1(ids.next());
            let m2 = MsgSpec::m1(ids.next());
            let c0 = Program::new(
                vec![(0, 0)],
                vec![
                    Step::SendThen { kind: first, slot: 0, msg: m1, other: Box::new(send(SendKind::Tell, 0, m2)), drop_first },
                    send(SendKind::Ask, 0, MsgSpec::m1(ids.next())),
                ],
            );
            let c1 = Program::new(vec![(0, 0)], vec![send(SendKind::Tell, 0, MsgSpec::m1(ids.next()))]);
            n += 1;
            push_group(format!("c16-{n}-lazy-{first:?}-drop{drop_first}"), ActorSpec::plain(2), vec![c0, c1], &mut groups);
        }
    }
    // a timed send whose future is made at t=0 and first polled at t=5: the deadline counts from the first poll,
    // through every route; the callee is busy until t=12, so a deadline counted from t=0 would expire first
    for first in [SendKind::TellTO(10), SendKind::AskTO(10)] {
        for cap in [1usize, 2] {
            let mut ids = Ids(0);
            let mut busy = MsgSpec::m1(ids.next()).steps(vec![Step::Sleep(12)]);
            busy.entry_yield = false;
            let mut filler = MsgSpec::quick(ids.next());
            filler.entry_yield = false;
            let m1 = MsgSpec::quick(ids.next());
            let c1 = Program { slots: vec![(0, 0)], steps: if cap == 1 { vec![send(SendKind::Tell, 0, busy), send(SendKind::Tell, 0, filler)] } else { vec![send(SendKind::Tell, 0, busy)] }, auto_yield: false, free: false };
            let c0 = Program::new(vec![(0, 0)], vec![Step::Yield, Step::SendThen { kind: first, slot: 0, msg: m1, other: Box::new(Step::Sleep(5)), drop_first: false }]);
            n += 1;
            push_group(format!("c16-{n}-lazy-deadline-{first:?}-cap{cap}"), ActorSpec::plain(cap), vec![c0, c1], &mut groups);
        }
    }
    groups
}

// ------------------------------------------------------------------ C18: features do not change behaviour

/// A fixed list of cycle-free scenarios drawn from the other properties' grammars; every build of the harness
/// (one per rsactor feature set) explores them and reports a signature of all (schedule, observable trace) pairs.
fn gen_c18(lvl: u8) -> Vec<Scenario> {
    let thorough = lvl >= 1;
    let xl = lvl >= 2;
    let _ = xl;
    let _ = thorough;
    let mut out: Vec<Scenario> = Vec::new();
    let mut take = |v: Vec<Scenario>, every: usize| {
        for (i, s) in v.into_iter().enumerate() {
            if i % every == 0 {
                out.push(s);
            }
        }
    };
    take(gen_c01(0), 60);
    take(gen_c03(0), 8);
    take(gen_c04(0), 25);
    take(gen_c06(0), 8);
    take(gen_c07(0), 90);
    take(gen_c08(0), 4);
    take(gen_c10(0), 5);
    take(gen_c10(0).into_iter().filter(|s| s.name.contains("-extreme-")).collect(), 1);
    // ask_join from a handler while the callee's next message asks back (no ask cycle at any moment), and asks
    // awaited by detached tasks
    // (the callee's ask is issued at t=5, after the ask phase of the ask_join and before its task ends at t=20)
    take(
        gen_c15(0)
            .into_iter()
            .filter(|s| s.name.contains("-join-pending-slowtrue") || s.name.contains("-detached-ask-") || s.name.contains("-chain3-no-cycle-ids-"))
            .map(|mut s| {
                if s.name.contains("-join-pending-") {
                    s.clients[1].steps.insert(0, Step::Sleep(5));
                }
                s
            })
            .collect(),
        1,
    );
    take(gen_c11(0), 2);
    take(gen_c13(0), 12);
    // hooks that ask other actors, but never back (exercises the wait-for bookkeeping without any cycle)
    for hook in [EdgeHook::Handler, EdgeHook::OnStart, EdgeHook::OnRun, EdgeHook::OnStop, EdgeHook::OnStopAfterRunErr] {
        for kind in [EdgeKind::Ask, EdgeKind::AskTO, EdgeKind::Erased] {
            let mut ids = Ids(0);
            let mut a0 = ActorSpec::plain(2);
            let a1 = ActorSpec::plain(2);
            let plain = MsgSpec::m1(ids.next()).steps(vec![Step::Yield]);
            let asking = ask_steps(kind, 1, plain);
            let mut clients = Vec::new();
            match hook {
                EdgeHook::Handler => {
                    clients.push(Program::new(vec![(0, 0)], vec![send(SendKind::Tell, 0, MsgSpec::m1(ids.next()).steps(asking)), send(SendKind::Ask, 0, MsgSpec::m1(ids.next()))]));
                }
                EdgeHook::OnStart => a0.on_start = HookSpec { entry_yield: true, steps: asking, out: Outcome::Ok, free: false },
                EdgeHook::OnRun => a0.on_run = vec![HookSpec { entry_yield: false, steps: [vec![Step::Yield], asking].concat(), out: Outcome::OkFalse, free: false }],
                EdgeHook::OnStop => {
                    a0.on_stop = HookSpec { entry_yield: true, steps: asking, out: Outcome::Ok, free: false };
                    clients.push(Program::new(vec![(0, 0)], vec![Step::Stop(0)]));
                }
                EdgeHook::OnStopAfterRunErr => {
                    a0.on_run = vec![HookSpec { entry_yield: false, steps: vec![Step::Yield], out: Outcome::Err(9), free: false }];
                    a0.on_stop = HookSpec { entry_yield: true, steps: asking, out: Outcome::Ok, free: false };
                }
            }
            clients.push(Program::new(vec![(0, 1), (1, 0)], vec![send(SendKind::Ask, 0, MsgSpec::m1(ids.next())), send(SendKind::Tell, 1, MsgSpec::m1(ids.next())), Step::Kill(0)]));
            let mut s = scn(format!("c18-tree-{hook:?}-{kind:?}"), vec![a0, a1], clients, &[]);
            s.registry = true;
            out.push(s);
        }
    }
    for how in 0..2 {
        let mut ids = Ids(0);
        let mut busy = MsgSpec::m1(ids.next()).steps(vec![Step::Sleep(20)]);
        busy.entry_yield = false;
        let back = MsgSpec::m1(ids.next()).steps(vec![send(SendKind::Ask, REG_BASE, MsgSpec::quick(ids.next()))]);
        let ping = MsgSpec::quick(ids.next());
        let mut actors = vec![ActorSpec::plain(3), ActorSpec::plain(3)];
        let mut clients = vec![Program { slots: vec![(0, 1)], steps: vec![send(SendKind::Tell, 0, busy), send(SendKind::Tell, 0, back)], auto_yield: false, free: false }];
        if how == 0 {
            let go = MsgSpec::m1(ids.next()).steps(vec![send(SendKind::AskTO(10), REG_BASE + 1, ping)]);
            clients.push(Program::new(vec![(0, 0)], vec![Step::Sleep(1), send(SendKind::Tell, 0, go)]));
        } else {
            actors[0].on_run = vec![HookSpec { entry_yield: false, steps: vec![Step::Sleep(1), send(SendKind::Ask, REG_BASE + 1, ping)], out: Outcome::OkFalse, free: false }];
            clients.push(Program::new(vec![(0, 0)], vec![Step::Sleep(5), send(SendKind::Tell, 0, MsgSpec::quick(ids.next()))]));
        }
        let mut s = scn(format!("c18-gave-up-unanswered-{how}"), actors, clients, &[]);
        s.registry = true;
        out.push(s);
    }
    // cyclic topology, but the asks are separated in virtual time: no ask cycle in any schedule
    for variant in 0..3 {
        let mut ids = Ids(0);
        let actors = vec![ActorSpec::plain(3), ActorSpec::plain(3), ActorSpec::plain(3)];
        let (go, t_back) = match variant {
            // A0 asks A1 with a timeout that expires (A1 is busy for 20 ms); at t=40 A1 asks A0
            0 => {
                let mut ping = MsgSpec::m1(ids.next()).steps(vec![Step::Sleep(20)]);
                ping.entry_yield = false;
                (MsgSpec::m1(ids.next()).steps(vec![send(SendKind::AskTO(10), REG_BASE + 1, ping)]), 40)
            }
            // A0 asks A1 and gets its reply; at t=40 A1 asks A0
            1 => (MsgSpec::m1(ids.next()).steps(vec![send(SendKind::Ask, REG_BASE + 1, MsgSpec::quick(ids.next()))]), 40),
            // A0 asks A1 and A2 together; at t=40 A1 asks A0
            _ => {
                let quick = MsgSpec::quick(ids.next());
                let slow = MsgSpec::m1(ids.next()).steps(vec![Step::Sleep(10)]);
                (MsgSpec::m1(ids.next()).steps(vec![Step::JoinAsk { slot_a: REG_BASE + 1, msg_a: quick, slot_b: REG_BASE + 2, msg_b: slow }]), 40)
            }
        };
        let back = MsgSpec::m1(ids.next()).steps(vec![send(SendKind::Ask, REG_BASE, MsgSpec::quick(ids.next()))]);
        let c0 = Program::new(vec![(0, 0)], vec![send(SendKind::Tell, 0, go)]);
        let c1 = Program::new(vec![(0, 1)], vec![Step::Sleep(t_back), send(SendKind::Ask, 0, back)]);
        let mut s = scn(format!("c18-separated-{variant}"), actors, vec![c0, c1], &[]);
        s.registry = true;
        out.push(s);
    }
    for (i, s) in out.iter_mut().enumerate() {
        s.tags.retain(|t| t != "quiet" && t != "probe");
        s.tags.push("feature_neutral".into());
        s.name = format!("c18-{i}:{}", s.name);
    }
    out
}

// ------------------------------------------------------------------ C12: a failing actor fails alone

fn gen_c12(lvl: u8) -> Vec<Scenario> {
    let thorough = lvl >= 1;
    let xl = lvl >= 2;
    let _ = xl;
    let mut out = Vec::new();
    let mut n = 0;
    #[derive(Clone, Copy, Debug, PartialEq)]
    enum Crash {
        StartPanic,
        StartErr,
        HandlerPanic(u32), // which of V's messages panics: 1 = d1, 2 = mv1 (sent by P's handler), 3 = d3
        RunPanic(usize),
        RunErr(usize),
        StopPanic,
        StopErr,
        SelfAskDeadlock,
        CycleWithPeer,
        /// V's handler panics while an ask it has just sent is still queued at the busy peer P
        AskUnwound,
        /// nobody is meant to crash: V's handler has two asks in flight at once (both to Q, which never asks anybody)
        OverlappingAsks,
        /// not V but the actor spawned later (by client 2, or by Q's handler) panics in the very first instruction
        /// of its on_start: that is the new actor's failure, not the spawner's
        LateSpawnPanics(bool),
    }
    let mut crashes = vec![
        Crash::AskUnwound,
        Crash::OverlappingAsks,
        Crash::LateSpawnPanics(false),
        Crash::LateSpawnPanics(true),
        Crash::StartPanic,
        Crash::StartErr,
        Crash::HandlerPanic(1),
        Crash::HandlerPanic(2),
        Crash::HandlerPanic(3),
        Crash::RunPanic(0),
        Crash::RunPanic(1),
        Crash::RunErr(1),
        Crash::StopPanic,
        Crash::StopErr,
    ];
    if cfg!(feature = "f_deadlock") {
        crashes.push(Crash::SelfAskDeadlock);
        crashes.push(Crash::CycleWithPeer);
    }
    for crash in crashes {
        for traffic in 0..(if thorough { 3 } else { 2 }) {
            let mut ids = Ids(0);
            // traffic pattern 1: the victim's mailbox holds one message only, so senders are parked on it when it dies
            let mut v = ActorSpec::plain(if traffic == 1 { 1 } else { 3 });
            let p = ActorSpec::plain(3);
            let q = ActorSpec::plain(3);
            let mut extra = ActorSpec::plain(2);
            extra.at_start = false;
            if let Crash::LateSpawnPanics(_) = crash {
                extra.on_start = HookSpec { entry_yield: false, steps: vec![], out: Outcome::Panic(5), free: true };
            }
            v.on_start = gated(match crash {
                Crash::StartPanic => Outcome::Panic(1),
                Crash::StartErr => Outcome::Err(1),
                _ => Outcome::Ok,
            });
            match crash {
                Crash::RunPanic(k) | Crash::RunErr(k) => {
                    let mut runs = Vec::new();
                    for i in 0..=k {
                        let out = if i == k {
                            if matches!(crash, Crash::RunPanic(_)) { Outcome::Panic(2) } else { Outcome::Err(2) }
                        } else {
                            Outcome::OkTrue
                        };
                        runs.push(HookSpec { entry_yield: false, steps: vec![Step::Yield], out, free: false });
                    }
                    v.on_run = runs;
                }
                _ => {}
            }
            v.on_stop = gated(match crash {
                Crash::StopPanic => Outcome::Panic(3),
                Crash::StopErr => Outcome::Err(3),
                _ => Outcome::Ok,
            });
            // messages to V
            let mut d1 = MsgSpec::m1(ids.next());
            let mut d2 = MsgSpec::m1(ids.next());
            let mut d3 = MsgSpec::m1(ids.next());
            let mut mv1 = MsgSpec::m1(ids.next());
            let mv2 = MsgSpec::m1(ids.next());
            match crash {
                Crash::HandlerPanic(1) => d1 = d1.out(Outcome::Panic(4)),
                Crash::HandlerPanic(2) => mv1 = mv1.out(Outcome::Panic(4)),
                Crash::HandlerPanic(3) => d3 = d3.out(Outcome::Panic(4)),
                Crash::AskUnwound => d2 = d2.steps(vec![Step::JoinAskPanic { slot: REG_BASE + 1, msg: MsgSpec::m1(ids.next()) }]),
                Crash::OverlappingAsks => d2 = d2.steps(vec![Step::JoinAsk { slot_a: REG_BASE + 2, msg_a: MsgSpec::quick(ids.next()), slot_b: REG_BASE + 2, msg_b: MsgSpec::m1(ids.next()) }]),
                Crash::SelfAskDeadlock => d2 = d2.steps(vec![send(SendKind::Ask, REG_BASE, MsgSpec::quick(ids.next()))]),
                // V asks P while P (in work1) is asking V: a genuine cycle, the detector kills one of the two
                Crash::CycleWithPeer => d2 = d2.steps(vec![send(SendKind::Ask, REG_BASE + 1, MsgSpec::quick(ids.next()))]),
                _ => {}
            }
            let mut mq1 = MsgSpec::m1(ids.next());
            let mq2 = MsgSpec::m1(ids.next());
            if let Crash::LateSpawnPanics(true) = crash {
                mq1 = mq1.steps(vec![Step::Spawn { actor: 3, to: 7 }]);
            }
            let work1 = MsgSpec::m1(ids.next()).steps(vec![send(SendKind::Ask, REG_BASE, mv1), send(SendKind::Ask, REG_BASE + 2, mq1)]);
            let work2 = MsgSpec::m1(ids.next()).steps(vec![send(SendKind::Ask, REG_BASE + 2, mq2), send(SendKind::AskTO(10), REG_BASE, mv2)]);
            let c0 = Program::new(vec![(0, 1)], vec![send(SendKind::Tell, 0, work1), send(SendKind::Tell, 0, work2)]);
            let mut c1steps = match traffic {
                0 => vec![send(SendKind::Ask, 0, d1), send(SendKind::Tell, 0, d2), send(SendKind::Ask, 0, d3)],
                1 => vec![send(SendKind::Tell, 0, d1), send(SendKind::TellTO(10), 0, d2), send(SendKind::AskTO(10), 0, d3)],
                _ => vec![send(SendKind::Tell, 0, d2), send(SendKind::Ask, 0, d1), send(SendKind::Ask, 0, d3)],
            };
            if matches!(crash, Crash::StopPanic | Crash::StopErr) {
                c1steps.push(Step::Stop(0));
            }
            let c1 = Program::new(vec![(0, 0)], c1steps);
            // afterwards: the survivors still talk to each other, ids still advance, the dead actor refuses
            let w3 = MsgSpec::m1(ids.next()).steps(vec![send(SendKind::Ask, REG_BASE + 1, MsgSpec::m1(ids.next()))]);
            let c2 = Program::new(
                vec![(0, 2), (1, 0)],
                vec![
                    Step::Sleep(30),
                    send(SendKind::Ask, 0, w3),
                    Step::Spawn { actor: 3, to: 2 },
                    Step::Ident(2),
                    send(SendKind::Ask, 2, MsgSpec::m1(ids.next())),
                    send(SendKind::Tell, 1, MsgSpec::m1(ids.next())),
                    send(SendKind::Ask, 1, MsgSpec::m1(ids.next())),
                ],
            );
            let mut c2 = c2;
            if let Crash::LateSpawnPanics(true) = crash {
                // Q's handler spawns the late actor; client 2 does not
                c2.steps.retain(|st| !matches!(st, Step::Spawn { .. } | Step::Ident(2)) && !matches!(st, Step::Send { slot: 2, .. }));
            }
            n += 1;
            let mut s = scn(format!("c12-{n}-{crash:?}-t{traffic}"), vec![v, p, q, extra], vec![c0, c1, c2], &[]);
            s.registry = true;
            out.push(s);
        }
    }
    // the victim's handler panics; afterwards a peer's handler goes on sending to it - 1100 tells in a row: each of
    // them fails with an error, and the peer lives on
    {
        let mut ids = Ids(0);
        let v = ActorSpec::plain(3);
        let p = ActorSpec::plain(3);
        let boom = MsgSpec::m1(ids.next()).out(Outcome::Panic(4));
        let mut flood: Vec<Step> = Vec::new();
        for _ in 0..1100 {
            flood.push(send(SendKind::Tell, REG_BASE, MsgSpec::quick(ids.next())));
            flood.push(Step::Fuse);
        }
        let work = MsgSpec::m1(ids.next()).steps(flood);
        let c0 = Program::new(vec![(0, 0)], vec![send(SendKind::Tell, 0, boom)]);
        let c1 = Program::new(vec![(0, 1)], vec![Step::Sleep(5), send(SendKind::Ask, 0, work), send(SendKind::Ask, 0, MsgSpec::m1(ids.next()))]);
        n += 1;
        let mut s = scn(format!("c12-{n}-peer-floods-the-dead-victim"), vec![v, p], vec![c0, c1], &["bound=2", "maxexecs=300"]);
        s.registry = true;
        out.push(s);
    }
    // with deadlock detection: the victim closes an ask cycle of six actors; it alone dies, the others get errors
    if cfg!(feature = "f_deadlock") {
        n += 1;
        let mut s = chain(6, &[EdgeKind::Ask; 6], format!("c12-{n}-cycle-of-six"));
        s.tags.retain(|t| t != "quiet");
        out.push(s);
    }
    out
}

// ------------------------------------------------------------------ C19 (runtime half): on_tell_result

fn gen_c19(lvl: u8) -> Vec<Scenario> {
    let thorough = lvl >= 1;
    let xl = lvl >= 2;
    let _ = xl;
    let mut out: Vec<Scenario> = gen_c01(lvl.min(1)).into_iter().enumerate().filter(|(i, _)| i % 3 == 0).map(|(_, s)| s).collect();
    for s in out.iter_mut() {
        s.name = s.name.replace("c01-", "c19-");
    }
    let mut n = out.len();
    // Result-returning handlers with a hand written on_tell_result, every call path, Ok and Err values,
    // including asks whose caller gives up while the handler is still running
    for slow in [false, true] {
        for cap in [1usize, 4] {
            let mut ids = Ids(0);
            let body = if slow { vec![Step::Sleep(20)] } else { vec![] };
            let mr = |ids: &mut Ids, err: bool, body: &Vec<Step>| {
                let mut m = MsgSpec::m1(ids.next()).kind(MsgKind::MR).steps(body.clone());
                if err {
                    m = m.out(Outcome::Err(7));
                }
                m
            };
            let c0 = Program::new(
                vec![(0, 0)],
                vec![send(SendKind::Tell, 0, mr(&mut ids, false, &body)), send(SendKind::Tell, 0, mr(&mut ids, true, &body)), send(SendKind::Ask, 0, mr(&mut ids, true, &body))],
            );
            let c1 = Program::new(
                vec![(0, 0)],
                vec![send(SendKind::AskTO(10), 0, mr(&mut ids, true, &body)), send(SendKind::TellTO(10), 0, mr(&mut ids, true, &body)), send(SendKind::AskTO(10), 0, MsgSpec::m1(ids.next()).steps(body.clone()))],
            );
            n += 1;
            out.push(scn(format!("c19-{n}-mr-slow{slow}-cap{cap}"), vec![ActorSpec::plain(cap)], vec![c0, c1], &[]));
        }
    }
    with_fused(out)
}
