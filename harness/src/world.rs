//! The scripted actor, the step interpreter and the controller loop that runs ONE execution
//! of a scenario under a given schedule on the real rsactor code.

use std::cell::RefCell;
use std::collections::HashMap;
use std::future::Future;
use std::sync::Arc;
use std::task::{Context, Poll};
use std::time::Duration;

use futures::FutureExt;
use rsactor::{
    Actor, ActorControl, ActorRef, ActorResult, ActorWeak, AskHandler, Message, TellHandler,
    WeakActorControl, WeakAskHandler, WeakTellHandler,
};

use crate::model::*;
use crate::msched::{self, ev, yield_point, Controlled, St};

// ------------------------------------------------------------------ messages & handles

#[derive(Debug, Clone, PartialEq, Eq)]
pub struct Rep {
    pub id: u32,
    pub seq: u32,
    pub actor: usize,
}

pub struct Msg {
    pub spec: MsgSpec,
    pub carried: Option<H>,
}
pub struct MsgS(pub MsgSpec);
pub struct MsgJ(pub MsgSpec);
pub struct MsgR(pub MsgSpec);

pub enum H {
    None,
    Strong(ActorRef<SA>),
    Weak(ActorWeak<SA>),
    Tell(Box<dyn TellHandler<Msg>>),
    Ask(Box<dyn AskHandler<Msg, Rep>>),
    WTell(Box<dyn WeakTellHandler<Msg>>),
    WAsk(Box<dyn WeakAskHandler<Msg, Rep>>),
    Ctl(Box<dyn ActorControl>),
    WCtl(Box<dyn WeakActorControl>),
}

impl H {
    pub fn kind(&self) -> &'static str {
        match self {
            H::None => "none",
            H::Strong(_) => "strong",
            H::Weak(_) => "weak",
            H::Tell(_) => "tell",
            H::Ask(_) => "ask",
            H::WTell(_) => "wtell",
            H::WAsk(_) => "wask",
            H::Ctl(_) => "ctl",
            H::WCtl(_) => "wctl",
        }
    }
    pub fn is_strong(&self) -> bool {
        matches!(self, H::Strong(_) | H::Tell(_) | H::Ask(_) | H::Ctl(_))
    }
    pub fn identity(&self) -> Option<rsactor::Identity> {
        Some(match self {
            H::None => return None,
            H::Strong(r) => r.identity(),
            H::Weak(w) => w.identity(),
            H::Tell(h) => h.as_control().identity(),
            H::Ask(h) => h.as_control().identity(),
            H::WTell(h) => h.as_weak_control().identity(),
            H::WAsk(h) => h.as_weak_control().identity(),
            H::Ctl(c) => c.identity(),
            H::WCtl(c) => c.identity(),
        })
    }
}

pub struct TagErr(pub u32);

/// Tags 9000..=9003 render as several kilobytes of three-byte characters (after 0..3 bytes of ASCII padding), the
/// way an error that echoes a path or a payload in some scripts does: whatever the framework does with the text of
/// a hook's error - log it, truncate it, store it - happens on text of that kind too.
impl std::fmt::Debug for TagErr {
    fn fmt(&self, f: &mut std::fmt::Formatter<'_>) -> std::fmt::Result {
        if (9000..=9003).contains(&self.0) {
            let pad = "x".repeat((self.0 - 9000) as usize);
            write!(f, "TagErr({}, {pad}{})", self.0, "\u{d55c}\u{ae00}".repeat(1500))
        } else {
            write!(f, "TagErr({})", self.0)
        }
    }
}

// ------------------------------------------------------------------ world (per execution)

pub struct World {
    pub scn: Arc<Scenario>,
    pub n_clients: usize,
    pub actor_owner: Vec<usize>,
    pub raw_ids: Vec<Option<u64>>,
    pub raw2local: HashMap<u64, usize>,
    pub joins: Vec<Option<tokio::task::JoinHandle<ActorResult<SA>>>>,
    pub harvested: Vec<bool>,
    pub registry: Vec<Option<ActorRef<SA>>>,
    pub final_slots: Vec<Option<Vec<H>>>,
    pub spawn_refs: Vec<Option<ActorRef<SA>>>,
    pub last_graph: Vec<(i64, i64)>,
    /// edges left in the process-wide graph by earlier executions of this process (only under a defect);
    /// they are not part of this execution's observation
    pub graph_baseline: Vec<(u64, u64)>,
}

thread_local! {
    pub static WORLD: RefCell<Option<World>> = RefCell::new(None);
}

pub fn world<R>(f: impl FnOnce(&mut World) -> R) -> R {
    WORLD.with(|w| f(w.borrow_mut().as_mut().expect("no world")))
}

pub fn local_of(raw: u64) -> Option<usize> {
    world(|w| w.raw2local.get(&raw).copied())
}

/// u32::MAX stands for the largest Duration there is
fn ms(d: u32) -> Duration {
    crate::model::timeout_duration(d)
}

// ------------------------------------------------------------------ the scripted actor

pub struct SA {
    pub idx: usize,
    pub owner: usize,
    pub spec: Arc<ActorSpec>,
    pub slots: Vec<H>,
    pub log: Vec<String>,
    pub seq: u32,
    pub run_inv: u32,
    pub run_evals: u32,
}

pub struct Args {
    pub idx: usize,
    pub owner: usize,
    pub spec: Arc<ActorSpec>,
    pub slots: Vec<H>,
}

fn out_str(o: &Outcome) -> String {
    format!("{o:?}")
}

impl Actor for SA {
    type Args = Args;
    type Error = TagErr;

    async fn on_start(
        args: Args,
        actor_ref: &ActorRef<Self>,
    ) -> Result<Self, TagErr> {
        let idx = args.idx;
        let owner = args.owner;
        let spec = args.spec.clone();
        let first: Box<dyn FnOnce() + Send> = Box::new(move || {
            ev(EvK::Called { actor: idx, hook: Hook::OnStart, msg: None, killed: None, inv: 0 })
        });
        Controlled::new(
            owner,
            spec.on_start.entry_yield,
            Some(first),
            None,
            Box::pin(async move {
                let mut slots = args.slots;
                let hs = spec.on_start.clone();
                {
                    let mut cx = Cx {
                        who: Who::Actor(idx),
                        slots: &mut slots,
                        self_ref: Some(actor_ref),
                        self_weak: None,
                        hook: Some(Hook::OnStart),
                        msg: None,
                        inv: 0,
                    };
                    run_steps(&mut cx, &hs.steps, false).await;
                }
                ev(EvK::Exit { actor: idx, hook: Hook::OnStart, msg: None, out: out_str(&hs.out) });
                match hs.out {
                    Outcome::Err(t) => Err(TagErr(t)),
                    Outcome::Panic(t) => panic!("injected:{t}"),
                    Outcome::Pend => {
                        std::future::pending::<()>().await;
                        unreachable!()
                    }
                    _ => Ok(SA {
                        idx,
                        owner,
                        spec,
                        slots,
                        log: vec!["on_start".to_string()],
                        seq: 0,
                        run_inv: 0,
                        run_evals: 0,
                    }),
                }
            }),
        )
        .await
    }

    // a plain fn with a synchronous part: the framework's select! evaluates `actor.on_run(..)` on every turn of the
    // loop, whether or not the idle branch is then polled; the count is part of the actor's final state
    fn on_run(&mut self, actor_weak: &ActorWeak<Self>) -> impl Future<Output = Result<bool, TagErr>> + Send {
        self.run_evals += 1;
        self.on_run_body(actor_weak)
    }
    async fn on_stop(
        &mut self,
        actor_weak: &ActorWeak<Self>,
        killed: bool,
    ) -> Result<(), TagErr> {
        let idx = self.idx;
        let owner = self.owner;
        let first: Box<dyn FnOnce() + Send> = Box::new(move || {
            ev(EvK::Called { actor: idx, hook: Hook::OnStop, msg: None, killed: Some(killed), inv: 0 })
        });
        let entry = self.spec.on_stop.entry_yield;
        Controlled::new(
            owner,
            entry,
            Some(first),
            None,
            Box::pin(async move {
                self.log.push(format!("on_stop:{killed}"));
                let hs = self.spec.on_stop.clone();
                {
                    let mut cx = Cx {
                        who: Who::Actor(idx),
                        slots: &mut self.slots,
                        self_ref: None,
                        self_weak: Some(actor_weak),
                        hook: Some(Hook::OnStop),
                        msg: None,
                        inv: 0,
                    };
                    run_steps(&mut cx, &hs.steps, false).await;
                }
                ev(EvK::Exit { actor: idx, hook: Hook::OnStop, msg: None, out: out_str(&hs.out) });
                match hs.out {
                    Outcome::Err(t) => Err(TagErr(t)),
                    Outcome::Panic(t) => panic!("injected:{t}"),
                    Outcome::Pend => {
                        std::future::pending::<()>().await;
                        unreachable!()
                    }
                    _ => Ok(()),
                }
            }),
        )
        .await
    }
}

impl SA {
    async fn on_run_body(
        &mut self,
        actor_weak: &ActorWeak<Self>,
    ) -> Result<bool, TagErr> {
        let idx = self.idx;
        let owner = self.owner;
        let cancel: Box<dyn FnOnce() + Send> =
            Box::new(move || ev(EvK::Cancelled { actor: idx, hook: Hook::OnRun, inv: 0 }));
        // (beyond its script an actor with free-running handlers idles free-running too: a bystander with no scheduling points)
        let free = self.spec.on_run.get(self.run_inv as usize).map(|h| h.free).unwrap_or(self.spec.free_handlers);
        Controlled::new(
            owner,
            false,
            None,
            Some(cancel),
            Box::pin(async move {
                let inv = self.run_inv;
                self.run_inv += 1;
                ev(EvK::Called { actor: idx, hook: Hook::OnRun, msg: None, killed: None, inv });
                self.log.push(format!("run{inv}"));
                let hs = match self.spec.on_run.get(inv as usize) {
                    Some(h) => h.clone(),
                    None => HookSpec { entry_yield: false, steps: vec![], out: Outcome::OkFalse, free: false },
                };
                {
                    let mut cx = Cx {
                        who: Who::Actor(idx),
                        slots: &mut self.slots,
                        self_ref: None,
                        self_weak: Some(actor_weak),
                        hook: Some(Hook::OnRun),
                        msg: None,
                        inv,
                    };
                    run_steps(&mut cx, &hs.steps, false).await;
                }
                ev(EvK::Exit { actor: idx, hook: Hook::OnRun, msg: None, out: out_str(&hs.out) });
                match hs.out {
                    Outcome::OkTrue | Outcome::Ok => Ok(true),
                    Outcome::OkFalse => Ok(false),
                    Outcome::Err(t) => Err(TagErr(t)),
                    Outcome::Panic(t) => panic!("injected:{t}"),
                    Outcome::Pend => {
                        std::future::pending::<()>().await;
                        unreachable!()
                    }
                }
            }),
        )
        .free(free)
        .await
    }
}

/// Common body of all four message kinds; returns the sequence number assigned.
async fn handle_body(
    me: &mut SA,
    spec: &MsgSpec,
    carried: Option<H>,
    actor_ref: &ActorRef<SA>,
) -> u32 {
    let idx = me.idx;
    me.log.push(format!("h{}", spec.id));
    let seq = me.seq;
    me.seq += 1;
    {
        let mut cx = Cx {
            who: Who::Actor(idx),
            slots: &mut me.slots,
            self_ref: Some(actor_ref),
            self_weak: None,
            hook: Some(Hook::Handler),
            msg: Some(spec.id),
            inv: seq,
        };
        run_steps(&mut cx, &spec.steps, false).await;
    }
    if let Some(h) = carried {
        match spec.carry {
            Some((_, Some(to))) => {
                log_slot(Who::Actor(idx), to, &h);
                put(&mut me.slots, to, h)
            }
            _ => drop(h),
        }
    }
    ev(EvK::Exit { actor: idx, hook: Hook::Handler, msg: Some(spec.id), out: format!("{:?}#{seq}", spec.out) });
    match spec.out {
        Outcome::Panic(t) => panic!("injected:{t}"),
        Outcome::Pend => {
            std::future::pending::<()>().await;
        }
        _ => {}
    }
    seq
}

fn handler_first(idx: usize, id: u32) -> Option<Box<dyn FnOnce() + Send>> {
    Some(Box::new(move || {
        ev(EvK::Called { actor: idx, hook: Hook::Handler, msg: Some(id), killed: None, inv: 0 })
    }))
}

impl Message<Msg> for SA {
    type Reply = Rep;
    async fn handle(&mut self, msg: Msg, actor_ref: &ActorRef<Self>) -> Rep {
        let (idx, owner) = (self.idx, self.owner);
        // (a message with an entry yield stays a scheduling point even among free-running handlers)
        let free = self.spec.free_handlers && !msg.spec.entry_yield;
        Controlled::new(
            owner,
            msg.spec.entry_yield,
            handler_first(idx, msg.spec.id),
            None,
            Box::pin(async move {
                let Msg { spec, carried } = msg;
                let seq = handle_body(self, &spec, carried, actor_ref).await;
                Rep { id: spec.id, seq, actor: idx }
            }),
        )
        .free(free)
        .await
    }
    fn on_tell_result(result: &Rep, _actor_ref: &ActorRef<Self>) {
        ev(EvK::TellResult { actor: result.actor, msg: result.id, val: format!("{}", result.seq) });
    }
}

/// answered at once, leaves no trace (see Step::WarmAsks)
pub struct Nop;
impl Message<Nop> for SA {
    type Reply = ();
    async fn handle(&mut self, _msg: Nop, _actor_ref: &ActorRef<Self>) {}
}

impl Message<MsgS> for SA {
    type Reply = String;
    async fn handle(&mut self, msg: MsgS, actor_ref: &ActorRef<Self>) -> String {
        let (idx, owner) = (self.idx, self.owner);
        Controlled::new(
            owner,
            msg.0.entry_yield,
            handler_first(idx, msg.0.id),
            None,
            Box::pin(async move {
                let seq = handle_body(self, &msg.0, None, actor_ref).await;
                format!("{}:{}:{}", msg.0.id, seq, idx)
            }),
        )
        .await
    }
}

impl Message<MsgR> for SA {
    type Reply = Result<u32, String>;
    async fn handle(
        &mut self,
        msg: MsgR,
        actor_ref: &ActorRef<Self>,
    ) -> Result<u32, String> {
        let (idx, owner) = (self.idx, self.owner);
        Controlled::new(
            owner,
            msg.0.entry_yield,
            handler_first(idx, msg.0.id),
            None,
            Box::pin(async move {
                let _seq = handle_body(self, &msg.0, None, actor_ref).await;
                match msg.0.out {
                    Outcome::Err(t) => Err(format!("{}:{}:{}", msg.0.id, t, idx)),
                    _ => Ok(msg.0.id),
                }
            }),
        )
        .await
    }
    fn on_tell_result(result: &Result<u32, String>, actor_ref: &ActorRef<Self>) {
        let actor = local_of(actor_ref.identity().id).unwrap_or(usize::MAX);
        let msg = match result {
            Ok(id) => *id,
            Err(s) => s.split(':').next().and_then(|x| x.parse().ok()).unwrap_or(0),
        };
        ev(EvK::TellResult { actor, msg, val: format!("{result:?}") });
    }
}

impl Message<MsgJ> for SA {
    type Reply = tokio::task::JoinHandle<u32>;
    async fn handle(
        &mut self,
        msg: MsgJ,
        actor_ref: &ActorRef<Self>,
    ) -> tokio::task::JoinHandle<u32> {
        let (idx, owner) = (self.idx, self.owner);
        Controlled::new(
            owner,
            msg.0.entry_yield,
            handler_first(idx, msg.0.id),
            None,
            Box::pin(async move {
                // the handler's own steps are empty for MJ; `steps` is the body of the spawned task
                let spec = msg.0.clone();
                let mut hspec = spec.clone();
                hspec.steps = vec![];
                let seq = handle_body(self, &hspec, None, actor_ref).await;
                let towner = msched::new_owner(&format!("task(m{})", spec.id));
                let id = spec.id;
                let end = spec.task_end.clone();
                let steps = spec.steps.clone();
                let first: Box<dyn FnOnce() + Send> = Box::new(move || {
                    ev(EvK::Called { actor: idx, hook: Hook::Task, msg: Some(id), killed: None, inv: seq })
                });
                let jh = tokio::spawn(Controlled::new(
                    towner,
                    true,
                    Some(first),
                    None,
                    Box::pin(async move {
                        let mut slots: Vec<H> = Vec::new();
                        {
                            let mut cx = Cx {
                                who: Who::Task(idx),
                                slots: &mut slots,
                                self_ref: None,
                                self_weak: None,
                                hook: Some(Hook::Task),
                                msg: Some(id),
                                inv: seq,
                            };
                            run_steps(&mut cx, &steps, false).await;
                        }
                        ev(EvK::Exit { actor: idx, hook: Hook::Task, msg: Some(id), out: format!("{end:?}") });
                        if end == TaskEnd::Panic {
                            panic!("injected:task{id}");
                        }
                        id * 1000 + seq
                    }),
                ));
                if spec.task_end == TaskEnd::Abort {
                    jh.abort();
                }
                jh
            }),
        )
        .await
    }
}

// ------------------------------------------------------------------ interpreter

#[derive(Clone, Copy, Debug)]
pub enum Who {
    Client(usize),
    Actor(usize),
    Task(usize),
}

pub struct Cx<'a> {
    pub who: Who,
    pub slots: &'a mut Vec<H>,
    pub self_ref: Option<&'a ActorRef<SA>>,
    pub self_weak: Option<&'a ActorWeak<SA>>,
    pub hook: Option<Hook>,
    pub msg: Option<u32>,
    pub inv: u32,
}

fn log_slot(who: Who, slot: u8, h: &H) {
    let target = h.identity().and_then(|i| local_of(i.id));
    ev(EvK::Slot { holder: holder_of(who), slot, kind: h.kind().to_string(), target });
}

fn holder_of(who: Who) -> Holder {
    match who {
        Who::Client(i) => Holder::Client(i),
        Who::Actor(j) => Holder::Actor(j),
        Who::Task(j) => Holder::Task(j),
    }
}

fn putl(cx: &mut Cx<'_>, slot: u8, h: H) {
    log_slot(cx.who, slot, &h);
    put(cx.slots, slot, h);
}

fn takel(cx: &mut Cx<'_>, slot: u8) -> H {
    let h = take(cx.slots, slot);
    if !matches!(h, H::None) {
        log_slot(cx.who, slot, &H::None);
    }
    h
}

fn put(slots: &mut Vec<H>, slot: u8, h: H) {
    let s = slot as usize;
    while slots.len() <= s {
        slots.push(H::None);
    }
    slots[s] = h;
}

fn take(slots: &mut Vec<H>, slot: u8) -> H {
    let s = slot as usize;
    if s < slots.len() {
        std::mem::replace(&mut slots[s], H::None)
    } else {
        H::None
    }
}

pub async fn run_steps(cx: &mut Cx<'_>, steps: &[Step], auto_yield: bool) {
    let mut fused = true; // no yield before the first step
    for st in steps {
        if let Step::Fuse = st {
            fused = true;
            continue;
        }
        if auto_yield && !fused {
            yield_point().await;
        }
        fused = false;
        exec(cx, st).await;
    }
}

fn err_res(e: &rsactor::Error, target_raw: Option<u64>) -> Res {
    use rsactor::Error as E;
    let (k, ident) = match e {
        E::Send { identity, .. } => (ErrK::Send, Some(identity.id)),
        E::Receive { identity, .. } => (ErrK::Receive, Some(identity.id)),
        E::Timeout { identity, .. } => (ErrK::Timeout, Some(identity.id)),
        E::Downcast { identity, .. } => (ErrK::Downcast, Some(identity.id)),
        E::Runtime { identity, .. } => (ErrK::Runtime, Some(identity.id)),
        E::MailboxCapacity { .. } => (ErrK::MailboxCapacity, None),
        E::Join { identity, source } => (
            if source.is_panic() { ErrK::JoinPanic } else { ErrK::JoinCancelled },
            Some(identity.id),
        ),
    };
    Res::Err { k, retryable: e.is_retryable(), ident_ok: ident.is_none() || ident == target_raw }
}

/// Obtain the handle an op works on.  SELF and REG slots yield temporaries.
enum Got<'a> {
    Local(&'a H),
    Temp(H),
    SelfRef(&'a ActorRef<SA>),
    SelfWeak(&'a ActorWeak<SA>),
}

fn resolve<'a>(cx: &'a Cx<'_>, slot: u8) -> Got<'a> {
    if slot == SELF_SLOT {
        if let Some(r) = cx.self_ref {
            return Got::SelfRef(r);
        }
        if let Some(w) = cx.self_weak {
            return Got::SelfWeak(w);
        }
        return Got::Temp(H::None);
    }
    if slot >= REG_BASE {
        let a = (slot - REG_BASE) as usize;
        let h = world(|w| match w.registry.get(a) {
            Some(Some(r)) => H::Strong(r.clone()),
            _ => H::None,
        });
        return Got::Temp(h);
    }
    static NONE: H = H::None;
    match cx.slots.get(slot as usize) {
        Some(h) => Got::Local(h),
        None => Got::Local(&NONE),
    }
}


fn op_start(k: OpK, h: Option<rsactor::Identity>, msg: Option<u32>, slot: u8, route: &str) -> (u32, Option<u64>) {
    let op = msched::next_op_id();
    let raw = h.map(|i| i.id);
    let target = raw.and_then(local_of);
    ev(EvK::OpStart { op, k, target, msg, slot, route: route.to_string() });
    (op, raw)
}

fn op_end(op: u32, res: Res) {
    ev(EvK::OpEnd { op, res });
}

async fn exec(cx: &mut Cx<'_>, st: &Step) {
    match st {
        Step::Fuse => {}
        Step::Yield => yield_point().await,
        Step::Sleep(d) => {
            msched::register_deadline(*d as u64);
            tokio::time::sleep(ms(*d)).await;
        }
        Step::Park => std::future::pending::<()>().await,
        Step::WarmAsks { slot, n } => {
            let r = match resolve(cx, *slot) {
                Got::Local(H::Strong(r)) => Some(r.clone()),
                Got::Temp(H::Strong(r)) => Some(r),
                _ => None,
            };
            let mut ok = 0u32;
            if let Some(r) = r {
                for k in 0..*n {
                    if r.ask(Nop).await.is_ok() {
                        ok += 1;
                    }
                    if k % 1000 == 0 {
                        msched::scripted_progress();
                    }
                }
            }
            ev(EvK::Mark { actor: None, hook: cx.hook, msg: cx.msg, k: ok, inv: cx.inv });
        }
        Step::Stall(d) => {
            let to = msched::now() + *d as u64;
            ev(EvK::Advance { to });
            msched::advance_to(to).await;
        }
        Step::Busy(d) => {
            let t = std::time::Instant::now();
            while t.elapsed() < ms(*d) {
                std::hint::spin_loop();
            }
        }
        Step::WaitSig(i) => {
            let n = msched::sig(*i);
            n.notified().await;
        }
        Step::Signal(i) => msched::sig(*i).notify_one(),
        Step::Mark(k) => {
            let actor = match cx.who {
                Who::Actor(a) | Who::Task(a) => Some(a),
                _ => None,
            };
            ev(EvK::Mark { actor, hook: cx.hook, msg: cx.msg, k: *k, inv: cx.inv });
        }
        Step::Panic(t) => panic!("injected:{t}"),
        Step::Send { kind, slot, msg } => exec_send(cx, *kind, *slot, msg).await,
        Step::JoinAsk { slot_a, msg_a, slot_b, msg_b } => {
            let get = |cx: &Cx<'_>, slot: u8| -> Option<ActorRef<SA>> {
                match resolve(cx, slot) {
                    Got::Local(H::Strong(r)) => Some(r.clone()),
                    Got::Temp(H::Strong(r)) => Some(r),
                    Got::SelfRef(r) => Some(r.clone()),
                    _ => None,
                }
            };
            let (ra, rb) = (get(cx, *slot_a), get(cx, *slot_b));
            let (opa, rawa) = op_start(OpK::Send(SendKind::Ask), ra.as_ref().map(|r| r.identity()), Some(msg_a.id), *slot_a, "join");
            let (opb, rawb) = op_start(OpK::Send(SendKind::Ask), rb.as_ref().map(|r| r.identity()), Some(msg_b.id), *slot_b, "join");
            match (ra, rb) {
                (Some(ra), Some(rb)) => {
                    let fa = async {
                        let r = rep(ra.ask(Msg { spec: msg_a.clone(), carried: None }).await, rawa);
                        op_end(opa, r);
                    };
                    let fb = async {
                        let r = rep(rb.ask(Msg { spec: msg_b.clone(), carried: None }).await, rawb);
                        op_end(opb, r);
                    };
                    futures::join!(fa, fb);
                }
                _ => {
                    op_end(opa, Res::NoHandle);
                    op_end(opb, Res::NoHandle);
                }
            }
        }
        Step::JoinAskPanic { slot, msg } => {
            let r = match resolve(cx, *slot) {
                Got::Local(H::Strong(r)) => Some(r.clone()),
                Got::Temp(H::Strong(r)) => Some(r),
                _ => None,
            };
            // "join-room": the mailbox has a free slot right now, so the first poll of the ask (made by join! before
            // the other branch runs) puts the envelope into the mailbox
            let room = r.as_ref().map(|r| r.verif_mailbox_len() < r.verif_mailbox_capacity()).unwrap_or(false);
            let (op, raw) = op_start(OpK::Send(SendKind::Ask), r.as_ref().map(|r| r.identity()), Some(msg.id), *slot, if room { "join-room" } else { "join" });
            if let Some(r) = r {
                let fa = async {
                    let res = rep(r.ask(Msg { spec: msg.clone(), carried: None }).await, raw);
                    op_end(op, res);
                };
                let fb = async {
                    yield_point().await;
                    panic!("injected:join");
                };
                futures::join!(fa, fb);
            } else {
                op_end(op, Res::NoHandle);
            }
        }
        Step::SpawnAsk { slot, msg } => {
            let got = resolve(cx, *slot);
            let h: &H = match &got {
                Got::Local(h) => h,
                Got::Temp(h) => h,
                _ => &H::None,
            };
            let ident = h.identity();
            let m = Msg { spec: msg.clone(), carried: None };
            let fut: Option<std::pin::Pin<Box<dyn Future<Output = rsactor::Result<Rep>> + Send>>> = match h {
                H::Strong(r) => {
                    let r = r.clone();
                    Some(Box::pin(async move { r.ask(m).await }))
                }
                H::Ask(t) => Some(Box::pin(unsafe_extend_ask(t.clone(), m))),
                _ => None,
            };
            let towner = msched::new_owner(&format!("spawned-ask(m{})", msg.id));
            let (slot, id) = (*slot, msg.id);
            tokio::spawn(Controlled::new(
                towner,
                true,
                None,
                None,
                Box::pin(async move {
                    let (op, raw) = op_start(OpK::Send(SendKind::Ask), ident, Some(id), slot, "spawned");
                    match fut {
                        Some(f) => {
                            let res = rep(f.await, raw);
                            op_end(op, res);
                        }
                        None => op_end(op, Res::NoHandle),
                    }
                }),
            ));
        }
        Step::SendThen { kind, slot, msg, other, drop_first } => {
            // only the typed / erased tell and ask of M1 messages, the forms the erased handlers offer
            let (op, raw, fut): (u32, Option<u64>, Option<std::pin::Pin<Box<dyn Future<Output = Res> + Send>>>) = {
                let got = resolve(cx, *slot);
                let h: &H = match &got {
                    Got::Local(h) => h,
                    Got::Temp(h) => h,
                    _ => &H::None,
                };
                let (op, raw) = op_start(OpK::Send(*kind), h.identity(), Some(msg.id), *slot, h.kind());
                let m = Msg { spec: msg.clone(), carried: None };
                let fut: Option<std::pin::Pin<Box<dyn Future<Output = Res> + Send>>> = match (h, kind) {
                    (H::Strong(r), SendKind::Tell) => {
                        let r = r.clone();
                        Some(Box::pin(async move { unit(r.tell(m).await, raw) }))
                    }
                    (H::Strong(r), SendKind::Ask) => {
                        let r = r.clone();
                        Some(Box::pin(async move { rep(r.ask(m).await, raw) }))
                    }
                    (H::Tell(t), SendKind::Tell) => {
                        let t = t.clone();
                        // the erased call itself happens here, its future is awaited (or dropped) later
                        let f = unsafe_extend(t, m);
                        Some(Box::pin(async move { unit(f.await, raw) }))
                    }
                    (H::Ask(t), SendKind::Ask) => {
                        let t = t.clone();
                        let f = unsafe_extend_ask(t, m);
                        Some(Box::pin(async move { rep(f.await, raw) }))
                    }
                    // the timeout forms: whatever the route, the deadline counts from the first poll of the future
                    (H::Strong(r), SendKind::TellTO(d)) => {
                        let (r, d) = (r.clone(), *d);
                        // (the clock is also stopped at creation time + d on every route, so that the routes differ
                        // only if the code under test makes them differ)
                        msched::register_deadline(d as u64);
                        Some(Box::pin(async move {
                            msched::register_deadline(d as u64);
                            unit(r.tell_with_timeout(m, ms(d)).await, raw)
                        }))
                    }
                    (H::Strong(r), SendKind::AskTO(d)) => {
                        let (r, d) = (r.clone(), *d);
                        msched::register_deadline(d as u64);
                        Some(Box::pin(async move {
                            msched::register_deadline(d as u64);
                            rep(r.ask_with_timeout(m, ms(d)).await, raw)
                        }))
                    }
                    (H::Tell(t), SendKind::TellTO(d)) => {
                        let d = *d;
                        msched::register_deadline(d as u64);
                        let f = unsafe_extend_to(t.clone(), m, ms(d));
                        Some(Box::pin(async move {
                            msched::register_deadline(d as u64);
                            unit(f.await, raw)
                        }))
                    }
                    (H::Ask(t), SendKind::AskTO(d)) => {
                        let d = *d;
                        msched::register_deadline(d as u64);
                        let f = unsafe_extend_ask_to(t.clone(), m, ms(d));
                        Some(Box::pin(async move {
                            msched::register_deadline(d as u64);
                            rep(f.await, raw)
                        }))
                    }
                    _ => None,
                };
                (op, raw, fut)
            };
            let _ = raw;
            Box::pin(exec(cx, other)).await;
            match fut {
                Some(f) if !*drop_first => {
                    let res = f.await;
                    op_end(op, res);
                }
                Some(f) => {
                    drop(f);
                    op_end(op, Res::Unit);
                }
                None => op_end(op, Res::NoHandle),
            }
        }
        Step::Stop(slot) => {
            let got = resolve(cx, *slot);
            let tmp;
            let h: &H = match &got {
                Got::Local(h) => h,
                Got::Temp(h) => h,
                Got::SelfRef(r) => {
                    let (op, _) = op_start(OpK::Stop, Some(r.identity()), None, *slot, "self");
                    let res = match r.stop().await {
                        Ok(()) => Res::Ok,
                        Err(e) => err_res(&e, None),
                    };
                    op_end(op, res);
                    return;
                }
                Got::SelfWeak(w) => {
                    tmp = match w.upgrade() {
                        Some(r) => H::Strong(r),
                        None => H::None,
                    };
                    &tmp
                }
            };
            let (op, raw) = op_start(OpK::Stop, h.identity(), None, *slot, h.kind());
            let r = match h {
                H::Strong(r) => Some(r.stop().await),
                H::Tell(t) => Some(t.as_control().stop().await),
                H::Ask(t) => Some(t.as_control().stop().await),
                H::Ctl(c) => Some(c.stop().await),
                _ => None,
            };
            op_end(
                op,
                match r {
                    Some(Ok(())) => Res::Ok,
                    Some(Err(e)) => err_res(&e, raw),
                    None => Res::NoHandle,
                },
            );
        }
        Step::StopCancel { slot, ms: after } => {
            let r = match resolve(cx, *slot) {
                Got::Local(H::Strong(r)) => Some(r.clone()),
                Got::Temp(H::Strong(r)) => Some(r),
                _ => None,
            };
            let (op, raw) = op_start(OpK::Stop, r.as_ref().map(|r| r.identity()), None, *slot, "cancellable");
            msched::register_deadline(*after as u64);
            let res = match r {
                Some(r) => match tokio::time::timeout(ms(*after), r.stop()).await {
                    Ok(Ok(())) => Res::Ok,
                    Ok(Err(e)) => err_res(&e, raw),
                    // the caller gave up: the stop future was dropped before it completed
                    Err(_) => Res::Upgraded(false),
                },
                None => Res::NoHandle,
            };
            op_end(op, res);
        }
        Step::Kill(slot) => {
            let got = resolve(cx, *slot);
            let tmp;
            let h: &H = match &got {
                Got::Local(h) => h,
                Got::Temp(h) => h,
                Got::SelfRef(r) => {
                    let (op, _) = op_start(OpK::Kill, Some(r.identity()), None, *slot, "self");
                    let res = match r.kill() {
                        Ok(()) => Res::Ok,
                        Err(e) => err_res(&e, None),
                    };
                    op_end(op, res);
                    return;
                }
                Got::SelfWeak(w) => {
                    tmp = match w.upgrade() {
                        Some(r) => H::Strong(r),
                        None => H::None,
                    };
                    &tmp
                }
            };
            let (op, raw) = op_start(OpK::Kill, h.identity(), None, *slot, h.kind());
            let r = match h {
                H::Strong(r) => Some(r.kill()),
                H::Tell(t) => Some(t.as_control().kill()),
                H::Ask(t) => Some(t.as_control().kill()),
                H::Ctl(c) => Some(c.kill()),
                _ => None,
            };
            op_end(
                op,
                match r {
                    Some(Ok(())) => Res::Ok,
                    Some(Err(e)) => err_res(&e, raw),
                    None => Res::NoHandle,
                },
            );
        }
        Step::CloneH { from, to } | Step::CloneBoxed { from, to } => {
            let boxed = matches!(st, Step::CloneBoxed { .. });
            let (op, new) = {
                let got = resolve(cx, *from);
                let tmp;
                let h: &H = match &got {
                    Got::Local(h) => h,
                    Got::Temp(h) => h,
                    Got::SelfRef(r) => {
                        tmp = H::Strong((*r).clone());
                        &tmp
                    }
                    Got::SelfWeak(w) => {
                        tmp = H::Weak((*w).clone());
                        &tmp
                    }
                };
                let (op, _) = op_start(
                    if boxed { OpK::CloneBoxed } else { OpK::CloneH },
                    h.identity(),
                    None,
                    *from,
                    h.kind(),
                );
                let new = match h {
                    H::None => H::None,
                    H::Strong(r) => H::Strong(r.clone()),
                    H::Weak(w) => H::Weak(w.clone()),
                    H::Tell(t) => H::Tell(if boxed { t.clone_boxed() } else { t.clone() }),
                    H::Ask(t) => H::Ask(if boxed { t.clone_boxed() } else { t.clone() }),
                    H::WTell(t) => H::WTell(if boxed { t.clone_boxed() } else { t.clone() }),
                    H::WAsk(t) => H::WAsk(if boxed { t.clone_boxed() } else { t.clone() }),
                    H::Ctl(t) => H::Ctl(if boxed { t.clone_boxed() } else { t.clone() }),
                    H::WCtl(t) => H::WCtl(if boxed { t.clone_boxed() } else { t.clone() }),
                };
                (op, new)
            };
            let res = if matches!(new, H::None) { Res::NoHandle } else { Res::Unit };
            putl(cx, *to, new);
            op_end(op, res);
        }
        Step::DropH(slot) => {
            let h = takel(cx, *slot);
            let (op, _) = op_start(OpK::DropH, h.identity(), None, *slot, h.kind());
            let res = if matches!(h, H::None) { Res::NoHandle } else { Res::Unit };
            drop(h);
            op_end(op, res);
        }
        Step::Downgrade { from, to } => {
            let (op, new) = {
                let got = resolve(cx, *from);
                let tmp;
                let h: &H = match &got {
                    Got::Local(h) => h,
                    Got::Temp(h) => h,
                    Got::SelfRef(r) => {
                        tmp = H::Weak(ActorRef::downgrade(r));
                        let (op, _) = op_start(OpK::Downgrade, Some(r.identity()), None, *from, "self");
                        op_end(op, Res::Unit);
                        drop(got);
                        putl(cx, *to, tmp);
                        return;
                    }
                    Got::SelfWeak(w) => {
                        tmp = H::Weak((*w).clone());
                        &tmp
                    }
                };
                let (op, _) = op_start(OpK::Downgrade, h.identity(), None, *from, h.kind());
                let new = match h {
                    H::Strong(r) => H::Weak(ActorRef::downgrade(r)),
                    H::Tell(t) => H::WTell(t.downgrade()),
                    H::Ask(t) => H::WAsk(t.downgrade()),
                    H::Ctl(t) => H::WCtl(t.downgrade()),
                    H::Weak(w) => H::Weak(w.clone()),
                    _ => H::None,
                };
                (op, new)
            };
            let res = if matches!(new, H::None) { Res::NoHandle } else { Res::Unit };
            putl(cx, *to, new);
            op_end(op, res);
        }
        Step::Upgrade { from, to } => {
            let (op, new, had) = {
                let got = resolve(cx, *from);
                let tmp;
                let h: &H = match &got {
                    Got::Local(h) => h,
                    Got::Temp(h) => h,
                    Got::SelfRef(r) => {
                        tmp = H::Weak(ActorRef::downgrade(r));
                        &tmp
                    }
                    Got::SelfWeak(w) => {
                        tmp = H::Weak((*w).clone());
                        &tmp
                    }
                };
                let (op, _) = op_start(OpK::Upgrade, h.identity(), None, *from, h.kind());
                let (new, had) = match h {
                    H::Weak(w) => (w.upgrade().map(H::Strong), true),
                    H::WTell(t) => (t.upgrade().map(H::Tell), true),
                    H::WAsk(t) => (t.upgrade().map(H::Ask), true),
                    H::WCtl(t) => (t.upgrade().map(H::Ctl), true),
                    _ => (None, false),
                };
                (op, new, had)
            };
            let res = if !had { Res::NoHandle } else { Res::Upgraded(new.is_some()) };
            if let Some(n) = new {
                putl(cx, *to, n);
            }
            op_end(op, res);
        }
        Step::Erase { from, to, kind, owned } => {
            let h = if *owned {
                takel(cx, *from)
            } else {
                match cx.slots.get(*from as usize) {
                    Some(H::Strong(r)) => H::Strong(r.clone()), // stand-in, real From<&> below
                    Some(H::Weak(w)) => H::Weak(w.clone()),
                    _ => H::None,
                }
            };
            let (op, _) = op_start(OpK::Erase, h.identity(), None, *from, h.kind());
            // For the borrowed flavour use From<&ActorRef> on the slot's own handle and drop the stand-in.
            let new = if *owned {
                match (h, kind) {
                    (H::Strong(r), EraseKind::Tell) => H::Tell(r.into()),
                    (H::Strong(r), EraseKind::Ask) => H::Ask(r.into()),
                    (H::Strong(r), EraseKind::Ctl) => H::Ctl(r.into()),
                    (H::Weak(w), EraseKind::Tell) => H::WTell(w.into()),
                    (H::Weak(w), EraseKind::Ask) => H::WAsk(w.into()),
                    (H::Weak(w), EraseKind::Ctl) => H::WCtl(w.into()),
                    _ => H::None,
                }
            } else {
                drop(h);
                match (cx.slots.get(*from as usize), kind) {
                    (Some(H::Strong(r)), EraseKind::Tell) => H::Tell(r.into()),
                    (Some(H::Strong(r)), EraseKind::Ask) => H::Ask(r.into()),
                    (Some(H::Strong(r)), EraseKind::Ctl) => H::Ctl(r.into()),
                    (Some(H::Weak(w)), EraseKind::Tell) => H::WTell(w.into()),
                    (Some(H::Weak(w)), EraseKind::Ask) => H::WAsk(w.into()),
                    (Some(H::Weak(w)), EraseKind::Ctl) => H::WCtl(w.into()),
                    _ => H::None,
                }
            };
            let res = if matches!(new, H::None) { Res::NoHandle } else { Res::Unit };
            putl(cx, *to, new);
            op_end(op, res);
        }
        Step::IsAlive(slot) => {
            let got = resolve(cx, *slot);
            let (id, kind, v) = match &got {
                Got::SelfRef(r) => (Some(r.identity()), "self", Some(r.is_alive())),
                Got::SelfWeak(w) => (Some(w.identity()), "selfweak", Some(w.is_alive())),
                Got::Local(_) | Got::Temp(_) => {
                    let h: &H = match &got {
                        Got::Local(h) => h,
                        Got::Temp(h) => h,
                        _ => unreachable!(),
                    };
                    (
                        h.identity(),
                        h.kind(),
                        match h {
                            H::None => None,
                            H::Strong(r) => Some(r.is_alive()),
                            H::Weak(w) => Some(w.is_alive()),
                            H::Tell(t) => Some(t.as_control().is_alive()),
                            H::Ask(t) => Some(t.as_control().is_alive()),
                            H::WTell(t) => Some(t.as_weak_control().is_alive()),
                            H::WAsk(t) => Some(t.as_weak_control().is_alive()),
                            H::Ctl(c) => Some(c.is_alive()),
                            H::WCtl(c) => Some(c.is_alive()),
                        },
                    )
                }
            };
            let (op, _) = op_start(OpK::IsAlive, id, None, *slot, kind);
            op_end(op, v.map(Res::Bool).unwrap_or(Res::NoHandle));
        }
        Step::Ident(slot) => {
            let got = resolve(cx, *slot);
            let (id, kind) = match &got {
                Got::SelfRef(r) => (Some(r.identity()), "self"),
                Got::SelfWeak(w) => (Some(w.identity()), "selfweak"),
                Got::Local(_) | Got::Temp(_) => {
                    let h: &H = match &got {
                        Got::Local(h) => h,
                        Got::Temp(h) => h,
                        _ => unreachable!(),
                    };
                    (h.identity(), h.kind())
                }
            };
            let (op, _) = op_start(OpK::Ident, id, None, *slot, kind);
            op_end(
                op,
                match id {
                    Some(i) => Res::Ident {
                        actor: local_of(i.id),
                        raw: i.id,
                        type_name: i.name().to_string(),
                    },
                    None => Res::NoHandle,
                },
            );
        }
        Step::Metrics(slot) => {
            let got = resolve(cx, *slot);
            let tmp;
            let h: &H = match &got {
                Got::Local(h) => h,
                Got::Temp(h) => h,
                Got::SelfRef(r) => {
                    tmp = H::Strong((*r).clone());
                    &tmp
                }
                Got::SelfWeak(w) => {
                    tmp = H::Weak((*w).clone());
                    &tmp
                }
            };
            let (op, _) = op_start(OpK::Metrics, h.identity(), None, *slot, h.kind());
            let res = metrics_of(h);
            op_end(op, res);
        }
        Step::Spawn { actor, to } => {
            let (op, _) = op_start(OpK::Spawn, None, None, *to, "spawn");
            match spawn_actor(*actor) {
                Some(r) => {
                    putl(cx, *to, H::Strong(r));
                    op_end(op, Res::Spawned(*actor));
                }
                None => op_end(op, Res::NoHandle),
            }
        }
    }
}

#[cfg(feature = "f_metrics")]
fn metrics_of(h: &H) -> Res {
    let strong = match h {
        H::Strong(r) => Some(r.clone()),
        H::Weak(w) => w.upgrade(),
        _ => None,
    };
    match (h, strong) {
        (_, Some(r)) => {
            let s = r.metrics();
            let consistent = s.message_count == r.message_count()
                && s.avg_processing_time == r.avg_processing_time()
                && s.max_processing_time == r.max_processing_time()
                && s.error_count == r.error_count();
            Res::Metrics {
                count: s.message_count,
                avg_ns: s.avg_processing_time.as_nanos() as u64,
                max_ns: s.max_processing_time.as_nanos() as u64,
                consistent,
            }
        }
        (H::Weak(_), None) => Res::Upgraded(false),
        _ => Res::NoHandle,
    }
}

#[cfg(not(feature = "f_metrics"))]
fn metrics_of(_h: &H) -> Res {
    Res::NoHandle
}

async fn exec_send(cx: &mut Cx<'_>, kind: SendKind, slot: u8, spec: &MsgSpec) {
    // a carried handle leaves the sender's slots before the send starts
    let carried = match spec.carry {
        Some((from, _)) => {
            let h = takel(cx, from);
            if matches!(h, H::None) { None } else { Some(h) }
        }
        None => None,
    };
    let got = resolve(cx, slot);
    let tmp;
    let (h, route): (&H, &str) = match &got {
        Got::Local(h) => (h, h.kind()),
        Got::Temp(h) => (h, "reg"),
        Got::SelfRef(r) => {
            tmp = H::Strong((*r).clone());
            (&tmp, "self")
        }
        Got::SelfWeak(w) => {
            tmp = match w.upgrade() {
                Some(r) => H::Strong(r),
                None => H::None,
            };
            (&tmp, "selfweak")
        }
    };
    let (op, raw) = op_start(OpK::Send(kind), h.identity(), Some(spec.id), slot, route);
    if let Some(t) = kind.timeout() {
        if t != u32::MAX {
            msched::register_deadline(crate::model::timeout_ms_ceil(t));
        }
    }
    let res: Res = match (h, &spec.kind) {
        (H::Strong(r), MsgKind::M1) => {
            let m = Msg { spec: spec.clone(), carried };
            match kind {
                SendKind::Tell => unit(r.tell(m).await, raw),
                SendKind::TellTO(t) => unit(r.tell_with_timeout(m, ms(t)).await, raw),
                SendKind::Ask => rep(r.ask(m).await, raw),
                SendKind::AskTO(t) => rep(r.ask_with_timeout(m, ms(t)).await, raw),
                SendKind::AskJoin => Res::NoHandle,
            }
        }
        (H::Tell(t), MsgKind::M1) => {
            let m = Msg { spec: spec.clone(), carried };
            match kind {
                SendKind::Tell => unit(t.tell(m).await, raw),
                SendKind::TellTO(d) => unit(t.tell_with_timeout(m, ms(d)).await, raw),
                _ => Res::NoHandle,
            }
        }
        (H::Ask(t), MsgKind::M1) => {
            let m = Msg { spec: spec.clone(), carried };
            match kind {
                SendKind::Ask => rep(t.ask(m).await, raw),
                SendKind::AskTO(d) => rep(t.ask_with_timeout(m, ms(d)).await, raw),
                _ => Res::NoHandle,
            }
        }
        (H::Strong(r), MsgKind::M2) => {
            let m = MsgS(spec.clone());
            match kind {
                SendKind::Tell => unit(r.tell(m).await, raw),
                SendKind::TellTO(t) => unit(r.tell_with_timeout(m, ms(t)).await, raw),
                SendKind::Ask => r.ask(m).await.map(Res::Str).unwrap_or_else(|e| err_res(&e, raw)),
                SendKind::AskTO(t) => r
                    .ask_with_timeout(m, ms(t))
                    .await
                    .map(Res::Str)
                    .unwrap_or_else(|e| err_res(&e, raw)),
                SendKind::AskJoin => Res::NoHandle,
            }
        }
        (H::Strong(r), MsgKind::MR) => {
            let m = MsgR(spec.clone());
            match kind {
                SendKind::Tell => unit(r.tell(m).await, raw),
                SendKind::TellTO(t) => unit(r.tell_with_timeout(m, ms(t)).await, raw),
                SendKind::Ask => r.ask(m).await.map(Res::RepR).unwrap_or_else(|e| err_res(&e, raw)),
                SendKind::AskTO(t) => r
                    .ask_with_timeout(m, ms(t))
                    .await
                    .map(Res::RepR)
                    .unwrap_or_else(|e| err_res(&e, raw)),
                SendKind::AskJoin => Res::NoHandle,
            }
        }
        (H::Strong(r), MsgKind::MJ) => {
            let m = MsgJ(spec.clone());
            match kind {
                SendKind::AskJoin => r.ask_join(m).await.map(Res::Join).unwrap_or_else(|e| err_res(&e, raw)),
                SendKind::Tell => unit(r.tell(m).await, raw),
                SendKind::Ask => match r.ask(m).await {
                    Ok(jh) => {
                        drop(jh);
                        Res::Unit
                    }
                    Err(e) => err_res(&e, raw),
                },
                _ => Res::NoHandle,
            }
        }
        _ => Res::NoHandle,
    };
    op_end(op, res);
}

/// Calls `TellHandler::tell` now and returns its future together with the handler it borrows from.
fn unsafe_extend(t: Box<dyn TellHandler<Msg>>, m: Msg) -> impl Future<Output = rsactor::Result<()>> + Send {
    struct Owned {
        // field order matters: the future borrows from the box and must be dropped first
        fut: Option<std::pin::Pin<Box<dyn Future<Output = rsactor::Result<()>> + Send>>>,
        _h: Box<dyn TellHandler<Msg>>,
    }
    impl Future for Owned {
        type Output = rsactor::Result<()>;
        fn poll(mut self: std::pin::Pin<&mut Self>, cx: &mut Context<'_>) -> Poll<Self::Output> {
            self.fut.as_mut().unwrap().as_mut().poll(cx)
        }
    }
    let mut o = Owned { fut: None, _h: t };
    // SAFETY: the boxed handler lives on the heap and is owned by `o` for as long as the future exists;
    // moving `o` does not move the heap allocation the future refers to.
    let href: &'static dyn TellHandler<Msg> = unsafe { &*(o._h.as_ref() as *const dyn TellHandler<Msg>) };
    o.fut = Some(href.tell(m));
    o
}

/// As `unsafe_extend`, for `TellHandler::tell_with_timeout`.
fn unsafe_extend_to(t: Box<dyn TellHandler<Msg>>, m: Msg, d: Duration) -> impl Future<Output = rsactor::Result<()>> + Send {
    struct Owned {
        fut: Option<std::pin::Pin<Box<dyn Future<Output = rsactor::Result<()>> + Send>>>,
        _h: Box<dyn TellHandler<Msg>>,
    }
    impl Future for Owned {
        type Output = rsactor::Result<()>;
        fn poll(mut self: std::pin::Pin<&mut Self>, cx: &mut Context<'_>) -> Poll<Self::Output> {
            self.fut.as_mut().unwrap().as_mut().poll(cx)
        }
    }
    let mut o = Owned { fut: None, _h: t };
    // SAFETY: as in unsafe_extend
    let href: &'static dyn TellHandler<Msg> = unsafe { &*(o._h.as_ref() as *const dyn TellHandler<Msg>) };
    o.fut = Some(href.tell_with_timeout(m, d));
    o
}

/// As `unsafe_extend_ask`, for `AskHandler::ask_with_timeout`.
fn unsafe_extend_ask_to(t: Box<dyn AskHandler<Msg, Rep>>, m: Msg, d: Duration) -> impl Future<Output = rsactor::Result<Rep>> + Send {
    struct Owned {
        fut: Option<std::pin::Pin<Box<dyn Future<Output = rsactor::Result<Rep>> + Send>>>,
        _h: Box<dyn AskHandler<Msg, Rep>>,
    }
    impl Future for Owned {
        type Output = rsactor::Result<Rep>;
        fn poll(mut self: std::pin::Pin<&mut Self>, cx: &mut Context<'_>) -> Poll<Self::Output> {
            self.fut.as_mut().unwrap().as_mut().poll(cx)
        }
    }
    let mut o = Owned { fut: None, _h: t };
    // SAFETY: as in unsafe_extend
    let href: &'static dyn AskHandler<Msg, Rep> = unsafe { &*(o._h.as_ref() as *const dyn AskHandler<Msg, Rep>) };
    o.fut = Some(href.ask_with_timeout(m, d));
    o
}

fn unsafe_extend_ask(t: Box<dyn AskHandler<Msg, Rep>>, m: Msg) -> impl Future<Output = rsactor::Result<Rep>> + Send {
    struct Owned {
        fut: Option<std::pin::Pin<Box<dyn Future<Output = rsactor::Result<Rep>> + Send>>>,
        _h: Box<dyn AskHandler<Msg, Rep>>,
    }
    impl Future for Owned {
        type Output = rsactor::Result<Rep>;
        fn poll(mut self: std::pin::Pin<&mut Self>, cx: &mut Context<'_>) -> Poll<Self::Output> {
            self.fut.as_mut().unwrap().as_mut().poll(cx)
        }
    }
    let mut o = Owned { fut: None, _h: t };
    // SAFETY: as in unsafe_extend
    let href: &'static dyn AskHandler<Msg, Rep> = unsafe { &*(o._h.as_ref() as *const dyn AskHandler<Msg, Rep>) };
    o.fut = Some(href.ask(m));
    o
}

fn unit(r: rsactor::Result<()>, raw: Option<u64>) -> Res {
    match r {
        Ok(()) => Res::Ok,
        Err(e) => err_res(&e, raw),
    }
}
fn rep(r: rsactor::Result<Rep>, raw: Option<u64>) -> Res {
    match r {
        Ok(p) => Res::Rep { id: p.id, seq: p.seq, actor: p.actor },
        Err(e) => err_res(&e, raw),
    }
}

// ------------------------------------------------------------------ spawning

pub fn spawn_actor(j: usize) -> Option<ActorRef<SA>> {
    let (spec, owner, slots) = world(|w| {
        let spec = Arc::new(w.scn.actors[j].clone());
        let mut slots: Vec<H> = Vec::new();
        for (s, a) in &spec.slots {
            let h = match (&w.spawn_refs.get(*a), &w.registry.get(*a)) {
                (Some(Some(r)), _) => H::Strong(r.clone()),
                (_, Some(Some(r))) => H::Strong(r.clone()),
                _ => H::None,
            };
            put(&mut slots, *s, h);
        }
        (spec, w.actor_owner[j], slots)
    });
    for (s, h) in slots.iter().enumerate() {
        if !matches!(h, H::None) {
            log_slot(Who::Actor(j), s as u8, h);
        }
    }
    let args = Args { idx: j, owner, spec: spec.clone(), slots };
    let cap = spec.cap;
    let r = std::panic::catch_unwind(std::panic::AssertUnwindSafe(move || match cap {
        Some(c) => rsactor::spawn_with_mailbox_capacity::<SA>(args, c),
        None => rsactor::spawn::<SA>(args),
    }));
    match r {
        Ok((aref, jh)) => {
            let raw = aref.identity().id;
            world(|w| {
                w.raw_ids[j] = Some(raw);
                w.raw2local.insert(raw, j);
                w.joins[j] = Some(jh);
            });
            ev(EvK::Spawned { actor: j, raw, cap_reported: aref.verif_mailbox_capacity() as i32 });
            Some(aref)
        }
        Err(p) => {
            let msg = p
                .downcast_ref::<String>()
                .cloned()
                .or_else(|| p.downcast_ref::<&str>().map(|s| s.to_string()))
                .unwrap_or_default();
            ev(EvK::SpawnPanic { actor: j, msg });
            None
        }
    }
}

// ------------------------------------------------------------------ harvesting results

fn summarize(res: Result<ActorResult<SA>, tokio::task::JoinError>) -> (JoinSummary, Option<SA>) {
    match res {
        Err(je) => {
            let (variant, msg) = if je.is_panic() {
                let p = je.into_panic();
                let m = p
                    .downcast_ref::<String>()
                    .cloned()
                    .or_else(|| p.downcast_ref::<&str>().map(|s| s.to_string()))
                    .unwrap_or_default();
                ("Panic", Some(m))
            } else {
                ("Cancelled", None)
            };
            (
                JoinSummary {
                    variant: variant.to_string(),
                    phase: None,
                    killed: None,
                    error: None,
                    has_actor: false,
                    actor_log: vec![],
                    run_evals: 0,
                    panic_msg: msg,
                    laws_ok: true,
                    laws_detail: String::new(),
                },
                None,
            )
        }
        Ok(r) => {
            let (laws_ok, laws_detail) = crate::valenum::check_result_laws(&r);
            match r {
                ActorResult::Completed { actor, killed } => (
                    JoinSummary {
                        variant: "Completed".into(),
                        phase: None,
                        killed: Some(killed),
                        error: None,
                        has_actor: true,
                        actor_log: actor.log.clone(),
                        run_evals: actor.run_evals,
                        panic_msg: None,
                        laws_ok,
                        laws_detail,
                    },
                    Some(actor),
                ),
                ActorResult::Failed { actor, error, phase, killed } => (
                    JoinSummary {
                        variant: "Failed".into(),
                        phase: Some(phase.to_string()),
                        killed: Some(killed),
                        error: Some(error.0),
                        has_actor: actor.is_some(),
                        actor_log: actor.as_ref().map(|a| a.log.clone()).unwrap_or_default(),
                        run_evals: actor.as_ref().map(|a| a.run_evals).unwrap_or(0),
                        panic_msg: None,
                        laws_ok,
                        laws_detail,
                    },
                    actor,
                ),
            }
        }
    }
}

/// Collect results of actors whose task has finished; returns true if anything was collected.
fn harvest() -> bool {
    let n = world(|w| w.joins.len());
    let mut any = false;
    for j in 0..n {
        let jh = world(|w| {
            if !w.harvested[j] && w.joins[j].as_ref().map(|h| h.is_finished()).unwrap_or(false) {
                w.harvested[j] = true;
                w.joins[j].take()
            } else {
                None
            }
        });
        if let Some(jh) = jh {
            let res = jh.now_or_never();
            match res {
                Some(r) => {
                    let (summary, actor) = summarize(r);
                    ev(EvK::Joined { actor: j, summary });
                    if let Some(a) = actor {
                        let had = a.slots.iter().any(|h| !matches!(h, H::None));
                        drop(a);
                        if had {
                            ev(EvK::Harvest { actor: j });
                        }
                    }
                    any = true;
                }
                None => msched::machinery_error(format!("join handle of actor {j} finished but not ready")),
            }
        }
    }
    any
}

// ------------------------------------------------------------------ the controller

#[derive(Clone, Debug)]
pub struct StepRec {
    pub n: usize,
    pub chosen: usize,
    /// the task that ran last was still runnable: choosing another one is a preemption
    pub cont: bool,
}

pub struct ExecResult {
    pub trace: Vec<Ev>,
    pub steps: Vec<StepRec>,
    pub points: u64,
    pub actions: u64,
    pub error: Option<String>,
    pub raw_ids: Vec<Option<u64>>,
}

pub trait Chooser {
    fn choose(&mut self, n: usize, cont: bool) -> usize;
}

fn status_string() -> String {
    let n = msched::n_owners();
    (0..n)
        .map(|o| match msched::status(o) {
            St::Runnable => 'R',
            St::Blocked => 'B',
            St::Done => 'D',
        })
        .collect()
}

fn mailboxes() -> Vec<(i32, i32)> {
    world(|w| {
        (0..w.scn.actors.len())
            .map(|j| {
                let r = w.registry.get(j).and_then(|r| r.as_ref());
                match r {
                    Some(r) => (r.verif_mailbox_len() as i32, r.verif_mailbox_capacity() as i32),
                    None => (-1, -1),
                }
            })
            .collect()
    })
}

#[cfg(feature = "f_deadlock")]
fn baseline_graph() -> Vec<(u64, u64)> {
    rsactor::verif::wait_for_edges()
}
#[cfg(not(feature = "f_deadlock"))]
fn baseline_graph() -> Vec<(u64, u64)> {
    Vec::new()
}

#[cfg(feature = "f_deadlock")]
fn graph_snapshot() {
    let base = world(|w| w.graph_baseline.clone());
    let edges: Vec<(u64, u64)> = rsactor::verif::wait_for_edges().into_iter().filter(|e| !base.contains(e)).collect();
    let mapped: Vec<(i64, i64)> = edges
        .iter()
        .map(|(a, b)| {
            (
                local_of(*a).map(|x| x as i64).unwrap_or(-1),
                local_of(*b).map(|x| x as i64).unwrap_or(-1),
            )
        })
        .collect();
    let changed = world(|w| {
        if w.last_graph != mapped {
            w.last_graph = mapped.clone();
            true
        } else {
            false
        }
    });
    if changed {
        ev(EvK::Graph { edges: mapped });
    }
}
#[cfg(not(feature = "f_deadlock"))]
fn graph_snapshot() {}

async fn client_main(i: usize, prog: Program, mut slots: Vec<H>) {
    {
        let mut cx = Cx {
            who: Who::Client(i),
            slots: &mut slots,
            self_ref: None,
            self_weak: None,
            hook: None,
            msg: None,
            inv: 0,
        };
        run_steps(&mut cx, &prog.steps, prog.auto_yield).await;
    }
    // keep the handles the program still owns: they stay alive to the end of the execution
    world(|w| w.final_slots[i] = Some(slots));
}

/// Poll a future from the controller itself, letting framework glue run in between.
async fn poll_settled<T>(fut: impl Future<Output = T>, rounds: usize) -> Option<T> {
    let mut fut = Box::pin(fut);
    let waker = futures::task::noop_waker();
    for _ in 0..rounds {
        let mut cx = Context::from_waker(&waker);
        if let Poll::Ready(v) = fut.as_mut().poll(&mut cx) {
            return Some(v);
        }
        msched::quiesce().await;
    }
    None
}

async fn controller(scn: Arc<Scenario>, chooser: &mut dyn Chooser) -> (Vec<StepRec>, u64, u64) {
    let nc = scn.clients.len();
    let na = scn.actors.len();
    for i in 0..nc {
        msched::new_owner(&format!("c{i}"));
    }
    let mut actor_owner = Vec::new();
    for j in 0..na {
        actor_owner.push(msched::new_owner(&format!("A{j}")));
    }
    WORLD.with(|w| {
        *w.borrow_mut() = Some(World {
            scn: scn.clone(),
            n_clients: nc,
            actor_owner,
            raw_ids: vec![None; na],
            raw2local: HashMap::new(),
            joins: (0..na).map(|_| None).collect(),
            harvested: vec![false; na],
            registry: (0..na).map(|_| None).collect(),
            final_slots: (0..nc).map(|_| None).collect(),
            spawn_refs: (0..na).map(|_| None).collect(),
            last_graph: Vec::new(),
            graph_baseline: baseline_graph(),
        })
    });
    #[cfg(feature = "f_testutils")]
    rsactor::reset_dead_letter_count();

    for j in 0..na {
        if scn.actors[j].at_start {
            let r = spawn_actor(j);
            world(|w| w.spawn_refs[j] = r);
        }
    }
    // hand out the initial handles
    let mut client_slots: Vec<Vec<H>> = Vec::new();
    for p in &scn.clients {
        let mut slots = Vec::new();
        for (s, a) in &p.slots {
            let h = world(|w| match &w.spawn_refs[*a] {
                Some(r) => H::Strong(r.clone()),
                None => H::None,
            });
            put(&mut slots, *s, h);
        }
        for (s, h) in slots.iter().enumerate() {
            if !matches!(h, H::None) {
                log_slot(Who::Client(client_slots.len()), s as u8, h);
            }
        }
        client_slots.push(slots);
    }
    world(|w| {
        for j in 0..na {
            let r = w.spawn_refs[j].take();
            if w.scn.registry || w.scn.has_tag("quiet") {
                w.registry[j] = r;
            }
        }
    });
    world(|w| {
        for j in 0..na {
            if w.registry[j].is_some() {
                let t = msched::now();
                msched::with(|c| {
                    c.trace.push(Ev {
                        t,
                        owner: None,
                        k: EvK::Slot { holder: Holder::Registry, slot: j as u8, kind: "strong".into(), target: Some(j) },
                    })
                });
            }
        }
    });
    let mut client_tasks = Vec::new();
    for (i, (p, slots)) in scn.clients.iter().cloned().zip(client_slots).enumerate() {
        let free = p.free;
        client_tasks.push(tokio::spawn(
            Controlled::new(i, true, None, None, Box::pin(client_main(i, p, slots))).free(free),
        ));
    }

    let quiet = scn.has_tag("quiet");
    let mut steps: Vec<StepRec> = Vec::new();
    let mut last: Option<usize> = None;
    let mut drained = false;
    let mut big_stride: u64 = 1000;
    let mut points = 0u64;
    let mut actions = 0u64;
    let mut granted: Option<usize> = None;
    loop {
        msched::quiesce().await;
        if msched::with(|c| c.machinery_error.is_some()) {
            break;
        }
        if let Some(g) = granted.take() {
            if !msched::grant_consumed(g) {
                msched::machinery_error(format!("grant to owner {g} was not consumed"));
                break;
            }
        }
        if harvest() {
            continue;
        }
        points += 1;
        graph_snapshot();
        if quiet {
            ev(EvK::Quiet { status: status_string(), mail: mailboxes() });
        }
        let n = msched::n_owners();
        let mut runnable: Vec<usize> = (0..n).filter(|o| msched::status(*o) == St::Runnable).collect();
        let cont = match last {
            Some(l) => runnable.contains(&l),
            None => false,
        };
        if cont {
            let l = last.unwrap();
            runnable.retain(|o| *o != l);
            runnable.insert(0, l);
        }
        if runnable.is_empty() {
            if let Some(d) = msched::next_deadline() {
                // a long jump is made in growing strides (1 s, 2 s, 4 s, ...): a timer the scenario does not know of
                // (one that the code under test sets for itself) fires on the way instead of being leapt over
                let now = msched::now();
                if d - now > 1000 {
                    let cp = (now + big_stride).min(d);
                    big_stride = big_stride.saturating_mul(2);
                    if cp < d {
                        msched::advance_to(cp).await;
                        let woke = (0..n).any(|o| msched::status(o) == St::Runnable);
                        if woke {
                            ev(EvK::Advance { to: cp });
                        }
                        actions += 1;
                        continue;
                    }
                }
                big_stride = 1000;
                ev(EvK::Advance { to: d });
                msched::advance_to(d).await;
                actions += 1;
                continue;
            }
            let blocked = (0..n).any(|o| msched::status(o) == St::Blocked);
            if !drained && blocked {
                drained = true;
                let to = msched::now() + 3_600_000;
                msched::advance_to(to).await;
                // only visible in the trace if it had an effect
                let woke = (0..n).any(|o| msched::status(o) == St::Runnable);
                if woke {
                    ev(EvK::Drain);
                }
                continue;
            }
            break;
        }
        let k = if runnable.len() == 1 {
            0
        } else {
            let k = chooser.choose(runnable.len(), cont);
            steps.push(StepRec { n: runnable.len(), chosen: k, cont });
            k
        };
        let o = runnable[k];
        msched::grant(o);
        granted = Some(o);
        last = Some(o);
        actions += 1;
        if msched::with(|c| c.livelock) {
            break;
        }
    }

    // ---- terminal probes, run by the controller itself (deterministic, no choices)
    if scn.has_tag("probe") && msched::with(|c| c.machinery_error.is_none()) {
        for j in 0..na {
            let joined = world(|w| w.harvested[j]);
            let h: Option<ActorRef<SA>> = world(|w| {
                if let Some(Some(r)) = w.registry.get(j) {
                    return Some(r.clone());
                }
                None
            });
            let _ = joined;
            if let Some(r) = h {
                let spec = MsgSpec::quick(900_000 + j as u32);
                let res = poll_settled(r.ask(Msg { spec, carried: None }), 4).await;
                let res = match res {
                    Some(Ok(p)) => Res::Rep { id: p.id, seq: p.seq, actor: p.actor },
                    Some(Err(e)) => err_res(&e, Some(r.identity().id)),
                    None => Res::NoHandle,
                };
                ev(EvK::Probe { actor: j, res });
                drop(r);
                msched::quiesce().await;
                harvest();
            }
        }
    }
    #[cfg(feature = "f_testutils")]
    ev(EvK::DlCount { delta: rsactor::dead_letter_count() });
    #[cfg(feature = "f_deadlock")]
    ev(EvK::LockPoisoned { poisoned: rsactor::verif::wait_for_lock_poisoned() });
    graph_snapshot();
    drop(client_tasks);
    (steps, points, actions)
}

/// Run one execution of `scn` under `chooser` on a fresh runtime.
pub fn run_one(scn: &Arc<Scenario>, chooser: &mut dyn Chooser) -> ExecResult {
    msched::reset();
    let rt = msched::build_runtime(scn.seed);
    let (steps, points, actions) = rt.block_on(controller(scn.clone(), chooser));
    let (trace, error) = msched::with(|c| (std::mem::take(&mut c.trace), c.machinery_error.take()));
    let raw_ids = world(|w| w.raw_ids.clone());
    // tear down: drop handles first, then the runtime with whatever tasks are still pending
    let w = WORLD.with(|w| w.borrow_mut().take());
    drop(w);
    drop(rt);
    msched::reset();
    ExecResult { trace, steps, points, actions, error, raw_ids }
}
