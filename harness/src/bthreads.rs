//! bthreads: the blocking API driven from real OS threads.
//!
//! The actor lives on its own multi-thread runtime; blocking callers are plain threads, `spawn_blocking`
//! tasks or async tasks (timeout variants); a coordinator on the main thread walks through EVERY order of
//! the callers' operations and of the gate openings (operation granularity).  What happens between two OS
//! threads inside one operation is free-running; the oracles are implications that hold under any such race.

use std::sync::atomic::{AtomicU32, Ordering};
use std::sync::mpsc;
use std::sync::{Arc, Mutex};
use std::time::{Duration, Instant};

use rsactor::{Actor, ActorRef, ActorWeak, Message};
use serde::{Deserialize, Serialize};

// ------------------------------------------------------------------ the actor under test

#[derive(Debug, Clone, Serialize, Deserialize, PartialEq)]
pub enum Log {
    Called(u32),
    Exit(u32, u32),
    Stop(bool),
}

pub struct BA {
    log: Arc<Mutex<Vec<(Instant, Log)>>>,
    gates: Arc<Vec<tokio::sync::Semaphore>>,
    seq: u32,
}

pub struct BArgs {
    log: Arc<Mutex<Vec<(Instant, Log)>>>,
    gates: Arc<Vec<tokio::sync::Semaphore>>,
}

impl Actor for BA {
    type Args = BArgs;
    type Error = String;
    async fn on_start(a: BArgs, _r: &ActorRef<Self>) -> Result<Self, String> {
        Ok(BA { log: a.log, gates: a.gates, seq: 0 })
    }
    async fn on_stop(&mut self, _w: &ActorWeak<Self>, killed: bool) -> Result<(), String> {
        self.log.lock().unwrap().push((Instant::now(), Log::Stop(killed)));
        Ok(())
    }
}

/// id, and the gate (if any) the handler waits for
pub struct Work(pub u32, pub Option<usize>);

/// Messages with an id in 80..=89 must not be thrown away: dropping one that was never handed to the handler panics
/// (on whichever thread drops it - for the bounded blocking calls that is their helper thread).
pub fn is_precious_id(id: u32) -> bool {
    (80..=89).contains(&id)
}

impl Drop for Work {
    fn drop(&mut self) {
        if is_precious_id(self.0) && !std::thread::panicking() {
            panic!("injected: message {} was dropped without being handled", self.0);
        }
    }
}

impl Message<Work> for BA {
    type Reply = u32;
    async fn handle(&mut self, m: Work, _r: &ActorRef<Self>) -> u32 {
        let m = {
            // handled: defuse
            let copy = (m.0, m.1);
            std::mem::forget(m);
            copy
        };
        self.log.lock().unwrap().push((Instant::now(), Log::Called(m.0)));
        if let Some(g) = m.1 {
            let p = self.gates[g].acquire().await.unwrap();
            p.forget();
        }
        if is_panicking_id(m.0) {
            panic!("injected: handler of message {} panics", m.0);
        }
        let s = self.seq;
        self.seq += 1;
        self.log.lock().unwrap().push((Instant::now(), Log::Exit(m.0, s)));
        m.0 * 100 + s
    }
    fn on_tell_result(result: &u32, _r: &ActorRef<Self>) {
        crate::msched::BT_SINK.lock().unwrap_or_else(|e| e.into_inner()).tell_results.push(*result / 100);
    }
}

/// Messages with an id in 70..=79 are bulky: 128 KiB carried inline (by value through every future on the way).
pub fn is_bulky_id(id: u32) -> bool {
    (70..=79).contains(&id)
}

pub struct Bulk(pub u32, pub [u8; 131072]);

impl Message<Bulk> for BA {
    type Reply = u32;
    async fn handle(&mut self, m: Bulk, _r: &ActorRef<Self>) -> u32 {
        self.log.lock().unwrap().push((Instant::now(), Log::Called(m.0)));
        let s = self.seq;
        self.seq += 1;
        self.log.lock().unwrap().push((Instant::now(), Log::Exit(m.0, s)));
        m.0 * 100 + s + (m.1[777] as u32)
    }
    fn on_tell_result(result: &u32, _r: &ActorRef<Self>) {
        crate::msched::BT_SINK.lock().unwrap_or_else(|e| e.into_inner()).tell_results.push(*result / 100);
    }
}

/// Messages with an id in 90..=99 make their handler panic (after its gate, if it has one).
pub fn is_panicking_id(id: u32) -> bool {
    (90..=99).contains(&id)
}

// ------------------------------------------------------------------ scenario alphabet

#[derive(Debug, Clone, Serialize, Deserialize, PartialEq)]
pub enum BOp {
    /// blocking_tell(id, timeout ms)
    Tell { id: u32, gate: Option<usize>, timeout: Option<u64> },
    /// blocking_ask
    Ask { id: u32, gate: Option<usize>, timeout: Option<u64> },
    /// deprecated aliases (timeout argument must be ignored)
    TellAlias { id: u32, gate: Option<usize>, timeout: Option<u64> },
    AskAlias { id: u32, gate: Option<usize>, timeout: Option<u64> },
    /// async tell / ask from a task on the actor's runtime
    ATell { id: u32, gate: Option<usize> },
    AAsk { id: u32, gate: Option<usize> },
    OpenGate(usize),
    /// the calling thread leaves itself an unpark token (what a park-based library or a self-waking future does)
    Unpark,
    /// n async tells (ids first..first+n) fired at once from tasks on the actor's runtime; their results are not
    /// tracked one by one (background traffic)
    Burst { first: u32, n: u32 },
    /// n plain threads, each inside blocking_ask(.., Some(timeout)) on a message that waits for `gate`; not tracked
    BgBoundedAsks { first: u32, n: u32, gate: usize, timeout: u64 },
    /// the coordinator lets real time pass
    Wait(u64),
    Stop,
    Kill,
}

#[derive(Debug, Clone, Copy, Serialize, Deserialize, PartialEq)]
pub enum Ctx {
    /// plain std::thread
    Thread,
    /// tokio spawn_blocking on the actor's runtime
    SpawnBlocking,
    /// an async task calling the blocking API directly (only sensible for the timeout variants)
    InAsync,
    /// async task using the async API, or control actions performed by the coordinator
    Async,
    /// a plain thread that owns a current-thread runtime and calls the blocking API from async code driven by it
    /// (only sensible for the timeout variants)
    InCurrentThread,
    /// spawn_blocking on a second runtime that was built without a time driver (and without an I/O driver)
    SpawnBlockingBareRt,
    /// spawn_blocking on a second runtime whose blocking pool has a single thread (the caller occupies it)
    SpawnBlockingTinyPool,
}

#[derive(Debug, Clone, Serialize, Deserialize)]
pub struct BCaller {
    pub ctx: Ctx,
    pub ops: Vec<BOp>,
    /// route the blocking calls through Box<dyn TellHandler> / Box<dyn AskHandler>
    #[serde(default)]
    pub erased: bool,
}

#[derive(Debug, Clone, Serialize, Deserialize)]
pub struct BScenario {
    pub name: String,
    pub cap: usize,
    pub gates: usize,
    pub callers: Vec<BCaller>,
    /// size of the blocking pool of the actor's runtime (None = tokio's default of 512)
    #[serde(default)]
    pub pool: Option<usize>,
}

#[derive(Debug, Clone, Serialize, Deserialize, PartialEq)]
pub enum BRes {
    Ok,
    Reply(u32),
    Err(String),
    Panicked(String),
}

#[derive(Debug, Clone, Serialize, Deserialize)]
pub struct OpRec {
    pub caller: usize,
    pub idx: usize,
    pub op: BOp,
    pub start_ms: u64,
    pub end_ms: Option<u64>,
    pub res: Option<BRes>,
    /// position in the order at which it was dispatched / observed complete
    pub started_at_step: usize,
    pub ended_by_step: Option<usize>,
}

#[derive(Debug, Clone, Serialize, Deserialize)]
pub struct BRun {
    pub order: Vec<usize>,
    pub ops: Vec<OpRec>,
    pub log: Vec<(u64, Log)>,
    pub dl_count: Option<u64>,
    pub join: String,
    #[serde(default)]
    pub dls: Vec<crate::msched::BtDl>,
    #[serde(default)]
    pub logs: Vec<String>,
    /// message ids for which on_tell_result ran, in order
    #[serde(default)]
    pub tell_results: Vec<u32>,
    #[serde(default)]
    pub actor_id: u64,
}

const SETTLE_MS: u64 = 40;
/// how late a bounded call may return (thread start-up, private runtime, scheduling noise)
const LATE_MS: u64 = 800;

fn err_name(e: &rsactor::Error) -> String {
    match e {
        rsactor::Error::Send { .. } => "Send".into(),
        rsactor::Error::Receive { .. } => "Receive".into(),
        rsactor::Error::Timeout { .. } => "Timeout".into(),
        other => format!("Other({other})"),
    }
}

fn do_blocking_erased(r: &ActorRef<BA>, op: &BOp) -> BRes {
    use rsactor::{AskHandler, TellHandler};
    let t = |ms: &Option<u64>| ms.map(|m| if m == u64::MAX { Duration::MAX } else { Duration::from_millis(m) });
    let out = std::panic::catch_unwind(std::panic::AssertUnwindSafe(|| match op {
        BOp::Tell { id, gate, timeout } => {
            let h: Box<dyn TellHandler<Work>> = r.into();
            match h.blocking_tell(Work(*id, *gate), t(timeout)) {
                Ok(()) => BRes::Ok,
                Err(e) => BRes::Err(err_name(&e)),
            }
        }
        BOp::Ask { id, gate, timeout } => {
            let h: Box<dyn AskHandler<Work, u32>> = r.into();
            match h.blocking_ask(Work(*id, *gate), t(timeout)) {
                Ok(v) => BRes::Reply(v),
                Err(e) => BRes::Err(err_name(&e)),
            }
        }
        BOp::Unpark => {
            std::thread::current().unpark();
            BRes::Ok
        }
        _ => BRes::Err("not an erased blocking op".into()),
    }));
    match out {
        Ok(r) => r,
        Err(p) => BRes::Panicked(p.downcast_ref::<String>().cloned().or_else(|| p.downcast_ref::<&str>().map(|s| s.to_string())).unwrap_or_default()),
    }
}

#[allow(deprecated)]
fn do_blocking(r: &ActorRef<BA>, op: &BOp) -> BRes {
    // u64::MAX stands for the largest Duration there is
    let t = |ms: &Option<u64>| ms.map(|m| if m == u64::MAX { Duration::MAX } else { Duration::from_millis(m) });
    let out = std::panic::catch_unwind(std::panic::AssertUnwindSafe(|| match op {
        BOp::Tell { id, timeout, .. } if is_bulky_id(*id) => match r.blocking_tell(Bulk(*id, [0u8; 131072]), t(timeout)) {
            Ok(()) => BRes::Ok,
            Err(e) => BRes::Err(err_name(&e)),
        },
        BOp::Ask { id, timeout, .. } if is_bulky_id(*id) => match r.blocking_ask(Bulk(*id, [0u8; 131072]), t(timeout)) {
            Ok(v) => BRes::Reply(v),
            Err(e) => BRes::Err(err_name(&e)),
        },
        BOp::Tell { id, gate, timeout } => match r.blocking_tell(Work(*id, *gate), t(timeout)) {
            Ok(()) => BRes::Ok,
            Err(e) => BRes::Err(err_name(&e)),
        },
        BOp::Ask { id, gate, timeout } => match r.blocking_ask(Work(*id, *gate), t(timeout)) {
            Ok(v) => BRes::Reply(v),
            Err(e) => BRes::Err(err_name(&e)),
        },
        BOp::TellAlias { id, gate, timeout } => match r.tell_blocking(Work(*id, *gate), t(timeout)) {
            Ok(()) => BRes::Ok,
            Err(e) => BRes::Err(err_name(&e)),
        },
        BOp::AskAlias { id, gate, timeout } => match r.ask_blocking(Work(*id, *gate), t(timeout)) {
            Ok(v) => BRes::Reply(v),
            Err(e) => BRes::Err(err_name(&e)),
        },
        BOp::Unpark => {
            std::thread::current().unpark();
            BRes::Ok
        }
        _ => BRes::Err("not a blocking op".into()),
    }));
    match out {
        Ok(r) => r,
        Err(p) => BRes::Panicked(
            p.downcast_ref::<String>().cloned().or_else(|| p.downcast_ref::<&str>().map(|s| s.to_string())).unwrap_or_default(),
        ),
    }
}

/// All interleavings of the callers' operation lists (each caller's own order is kept).
pub fn orders(lens: &[usize]) -> Vec<Vec<usize>> {
    fn rec(rem: &mut Vec<usize>, cur: &mut Vec<usize>, out: &mut Vec<Vec<usize>>) {
        if rem.iter().all(|x| *x == 0) {
            out.push(cur.clone());
            return;
        }
        for i in 0..rem.len() {
            if rem[i] > 0 {
                rem[i] -= 1;
                cur.push(i);
                rec(rem, cur, out);
                cur.pop();
                rem[i] += 1;
            }
        }
    }
    let mut out = Vec::new();
    rec(&mut lens.to_vec(), &mut Vec::new(), &mut out);
    out
}

/// Execute one order of one scenario on a fresh actor.
pub fn run_order(scn: &BScenario, order: &[usize]) -> BRun {
    let rt = {
        let mut b = tokio::runtime::Builder::new_multi_thread();
        b.worker_threads(3).enable_all();
        if let Some(p) = scn.pool {
            b.max_blocking_threads(p);
        }
        b.build().unwrap()
    };
    let mut background: Vec<std::thread::JoinHandle<()>> = Vec::new();
    let log: Arc<Mutex<Vec<(Instant, Log)>>> = Arc::new(Mutex::new(Vec::new()));
    let gates: Arc<Vec<tokio::sync::Semaphore>> = Arc::new((0..scn.gates).map(|_| tokio::sync::Semaphore::new(0)).collect());
    #[cfg(feature = "f_testutils")]
    rsactor::reset_dead_letter_count();
    {
        let mut sink = crate::msched::BT_SINK.lock().unwrap_or_else(|e| e.into_inner());
        *sink = Default::default();
    }
    crate::msched::BT_ACTIVE.store(true, Ordering::SeqCst);
    let t0 = Instant::now();
    let (aref, jh) = {
        let _g = rt.enter();
        rsactor::spawn_with_mailbox_capacity::<BA>(BArgs { log: log.clone(), gates: gates.clone() }, scn.cap)
    };
    let bare_rt = if scn.callers.iter().any(|c| c.ctx == Ctx::SpawnBlockingBareRt) { Some(tokio::runtime::Builder::new_multi_thread().worker_threads(1).build().unwrap()) } else { None };
    let tiny_rt = if scn.callers.iter().any(|c| c.ctx == Ctx::SpawnBlockingTinyPool) {
        Some(tokio::runtime::Builder::new_multi_thread().worker_threads(1).max_blocking_threads(1).enable_all().build().unwrap())
    } else {
        None
    };
    let (res_tx, res_rx) = mpsc::channel::<(usize, usize, u64, BRes)>();
    // one command channel per caller
    let mut cmd_txs: Vec<Option<mpsc::Sender<(usize, BOp)>>> = Vec::new();
    let mut threads = Vec::new();
    let inflight = Arc::new(AtomicU32::new(0));
    for (ci, c) in scn.callers.iter().enumerate() {
        match c.ctx {
            Ctx::Thread => {
                let (tx, rx) = mpsc::channel::<(usize, BOp)>();
                let r = aref.clone();
                let res_tx = res_tx.clone();
                let erased = c.erased;
                threads.push(std::thread::spawn(move || {
                    while let Ok((idx, op)) = rx.recv() {
                        let res = if erased { do_blocking_erased(&r, &op) } else { do_blocking(&r, &op) };
                        let _ = res_tx.send((ci, idx, t0.elapsed().as_millis() as u64, res));
                    }
                }));
                cmd_txs.push(Some(tx));
            }
            Ctx::InCurrentThread => {
                let (tx, rx) = mpsc::channel::<(usize, BOp)>();
                let r = aref.clone();
                let res_tx = res_tx.clone();
                let erased = c.erased;
                threads.push(std::thread::spawn(move || {
                    let own = tokio::runtime::Builder::new_current_thread().enable_all().build().unwrap();
                    while let Ok((idx, op)) = rx.recv() {
                        let res = own.block_on(async { if erased { do_blocking_erased(&r, &op) } else { do_blocking(&r, &op) } });
                        let _ = res_tx.send((ci, idx, t0.elapsed().as_millis() as u64, res));
                    }
                }));
                cmd_txs.push(Some(tx));
            }
            _ => cmd_txs.push(None),
        }
    }
    let mut ops: Vec<OpRec> = Vec::new();
    let mut next_idx = vec![0usize; scn.callers.len()];
    let mut tasks = Vec::new();
    let drain = |ops: &mut Vec<OpRec>, step: usize, wait: Duration| {
        let deadline = Instant::now() + wait;
        loop {
            let left = deadline.saturating_duration_since(Instant::now());
            match res_rx.recv_timeout(left) {
                Ok((ci, idx, end, res)) => {
                    if let Some(o) = ops.iter_mut().find(|o| o.caller == ci && o.idx == idx) {
                        o.end_ms = Some(end);
                        o.res = Some(res);
                        o.ended_by_step = Some(step);
                    }
                    if left.is_zero() {
                        break;
                    }
                    // an op completed: no need to wait the whole settle window for this step
                    if ops.iter().filter(|o| o.started_at_step == step).all(|o| o.res.is_some()) {
                        break;
                    }
                }
                Err(_) => break,
            }
        }
    };
    for (step, &ci) in order.iter().enumerate() {
        let c = &scn.callers[ci];
        let idx = next_idx[ci];
        next_idx[ci] += 1;
        let op = c.ops[idx].clone();
        let start_ms = t0.elapsed().as_millis() as u64;
        ops.push(OpRec { caller: ci, idx, op: op.clone(), start_ms, end_ms: None, res: None, started_at_step: step, ended_by_step: None });
        // a caller's next operation cannot start before its previous one returned: wait for it (bounded)
        if idx > 0 {
            let prev_pending = ops.iter().any(|o| o.caller == ci && o.idx == idx - 1 && o.res.is_none());
            if prev_pending && matches!(c.ctx, Ctx::Thread | Ctx::InCurrentThread) {
                // the thread is still inside its previous call; the command queues up behind it (program order kept)
            }
        }
        match (&op, c.ctx) {
            (BOp::Wait(ms), _) => {
                std::thread::sleep(Duration::from_millis(*ms));
                let o = ops.last_mut().unwrap();
                o.end_ms = Some(t0.elapsed().as_millis() as u64);
                o.res = Some(BRes::Ok);
                o.ended_by_step = Some(step);
            }
            (BOp::Burst { first, n }, _) => {
                for k in 0..*n {
                    let r = aref.clone();
                    let id = first + k;
                    tasks.push(rt.spawn(async move {
                        let _ = r.tell(Work(id, None)).await;
                    }));
                }
                let o = ops.last_mut().unwrap();
                o.end_ms = Some(t0.elapsed().as_millis() as u64);
                o.res = Some(BRes::Ok);
                o.ended_by_step = Some(step);
            }
            (BOp::BgBoundedAsks { first, n, gate, timeout }, _) => {
                for k in 0..*n {
                    let r = aref.clone();
                    let (id, gate, timeout) = (first + k, *gate, *timeout);
                    background.push(std::thread::spawn(move || {
                        let _ = r.blocking_ask(Work(id, Some(gate)), Some(Duration::from_millis(timeout)));
                    }));
                }
                let o = ops.last_mut().unwrap();
                o.end_ms = Some(t0.elapsed().as_millis() as u64);
                o.res = Some(BRes::Ok);
                o.ended_by_step = Some(step);
            }
            (BOp::OpenGate(g), _) => {
                gates[*g].add_permits(1);
                let o = ops.last_mut().unwrap();
                o.end_ms = Some(start_ms);
                o.res = Some(BRes::Ok);
                o.ended_by_step = Some(step);
            }
            (BOp::Stop, _) => {
                let r = aref.clone();
                let res_tx = res_tx.clone();
                tasks.push(rt.spawn(async move {
                    let res = match r.stop().await {
                        Ok(()) => BRes::Ok,
                        Err(e) => BRes::Err(err_name(&e)),
                    };
                    let _ = res_tx.send((ci, idx, t0.elapsed().as_millis() as u64, res));
                }));
            }
            (BOp::Kill, _) => {
                let res = match aref.kill() {
                    Ok(()) => BRes::Ok,
                    Err(e) => BRes::Err(err_name(&e)),
                };
                let o = ops.last_mut().unwrap();
                o.end_ms = Some(t0.elapsed().as_millis() as u64);
                o.res = Some(res);
                o.ended_by_step = Some(step);
            }
            (BOp::ATell { id, gate }, _) | (BOp::AAsk { id, gate }, _) => {
                let r = aref.clone();
                let res_tx = res_tx.clone();
                let (id, gate) = (*id, *gate);
                let ask = matches!(op, BOp::AAsk { .. });
                tasks.push(rt.spawn(async move {
                    let res = if ask {
                        match r.ask(Work(id, gate)).await {
                            Ok(v) => BRes::Reply(v),
                            Err(e) => BRes::Err(err_name(&e)),
                        }
                    } else {
                        match r.tell(Work(id, gate)).await {
                            Ok(()) => BRes::Ok,
                            Err(e) => BRes::Err(err_name(&e)),
                        }
                    };
                    let _ = res_tx.send((ci, idx, t0.elapsed().as_millis() as u64, res));
                }));
            }
            (_, Ctx::Thread) | (_, Ctx::InCurrentThread) => {
                cmd_txs[ci].as_ref().unwrap().send((idx, op.clone())).unwrap();
            }
            (_, Ctx::SpawnBlocking) => {
                let r = aref.clone();
                let res_tx = res_tx.clone();
                let op2 = op.clone();
                inflight.fetch_add(1, Ordering::SeqCst);
                let inflight2 = inflight.clone();
                let erased = c.erased;
                tasks.push(rt.spawn_blocking(move || {
                    let res = if erased { do_blocking_erased(&r, &op2) } else { do_blocking(&r, &op2) };
                    inflight2.fetch_sub(1, Ordering::SeqCst);
                    let _ = res_tx.send((ci, idx, t0.elapsed().as_millis() as u64, res));
                }));
            }
            (_, Ctx::SpawnBlockingTinyPool) => {
                let r = aref.clone();
                let res_tx = res_tx.clone();
                let op2 = op.clone();
                let erased = c.erased;
                let _ = tiny_rt.as_ref().unwrap().spawn_blocking(move || {
                    let res = if erased { do_blocking_erased(&r, &op2) } else { do_blocking(&r, &op2) };
                    let _ = res_tx.send((ci, idx, t0.elapsed().as_millis() as u64, res));
                });
            }
            (_, Ctx::SpawnBlockingBareRt) => {
                let r = aref.clone();
                let res_tx = res_tx.clone();
                let op2 = op.clone();
                let erased = c.erased;
                let _ = bare_rt.as_ref().unwrap().spawn_blocking(move || {
                    let res = if erased { do_blocking_erased(&r, &op2) } else { do_blocking(&r, &op2) };
                    let _ = res_tx.send((ci, idx, t0.elapsed().as_millis() as u64, res));
                });
            }
            (_, Ctx::InAsync) => {
                let r = aref.clone();
                let res_tx = res_tx.clone();
                let op2 = op.clone();
                tasks.push(rt.spawn(async move {
                    let res = do_blocking(&r, &op2);
                    let _ = res_tx.send((ci, idx, t0.elapsed().as_millis() as u64, res));
                }));
            }
            (_, Ctx::Async) => {}
        }
        drain(&mut ops, step, Duration::from_millis(SETTLE_MS));
    }
    // let timeouts expire, then release everything and collect what is still in flight
    let max_to = ops.iter().filter_map(|o| match &o.op {
        BOp::Tell { timeout, .. } | BOp::Ask { timeout, .. } => *timeout,
        _ => None,
    }).max().unwrap_or(0);
    let end_step = order.len();
    if ops.iter().any(|o| o.res.is_none()) {
        drain(&mut ops, end_step, Duration::from_millis(max_to.min(1000) + 60));
    }
    let log_before_release = log.lock().unwrap().len();
    for g in gates.iter() {
        g.add_permits(256);
    }
    let _ = log_before_release;
    let patience = Instant::now() + Duration::from_millis(2500);
    while ops.iter().any(|o| o.res.is_none()) && Instant::now() < patience {
        drain(&mut ops, end_step + 1, Duration::from_millis(50));
    }
    // end the actor and collect
    let stop_issued = ops.iter().any(|o| matches!(o.op, BOp::Stop | BOp::Kill));
    let join = rt.block_on(async {
        if !stop_issued {
            // (bounded: a mailbox that never frees a slot must not hang the harness; the actor is then killed)
            if tokio::time::timeout(Duration::from_secs(3), aref.stop()).await.is_err() {
                let _ = aref.kill();
            }
        }
        match tokio::time::timeout(Duration::from_secs(5), jh).await {
            Ok(Ok(r)) => format!("{}", if r.is_completed() { if r.was_killed() { "Completed(killed)" } else { "Completed" } } else { "Failed" }),
            Ok(Err(e)) => format!("JoinError({e})"),
            Err(_) => "JoinTimeout".to_string(),
        }
    });
    // helper threads of timed-out blocking calls may still be running: give them a moment, then count
    std::thread::sleep(Duration::from_millis(80));
    drop(cmd_txs);
    // a caller thread that is still inside a blocking call now will never come back: its operation stays without a
    // result ("never returned") and the thread is left behind rather than joined
    let give_up = Instant::now() + Duration::from_millis(3000);
    for t in threads {
        while !t.is_finished() && Instant::now() < give_up {
            std::thread::sleep(Duration::from_millis(10));
        }
        if t.is_finished() {
            let _ = t.join();
        }
    }
    #[cfg(feature = "f_testutils")]
    let dl_count = Some(rsactor::dead_letter_count());
    #[cfg(not(feature = "f_testutils"))]
    let dl_count = None;
    let log: Vec<(u64, Log)> = log.lock().unwrap().iter().map(|(t, l)| (t.duration_since(t0).as_millis() as u64, l.clone())).collect();
    let bg_give_up = Instant::now() + Duration::from_millis(4000);
    for t in background {
        while !t.is_finished() && Instant::now() < bg_give_up {
            std::thread::sleep(Duration::from_millis(10));
        }
        if t.is_finished() {
            let _ = t.join();
        }
    }
    let actor_id = aref.identity().id;
    drop(aref);
    rt.shutdown_timeout(Duration::from_millis(200));
    if let Some(b) = bare_rt {
        b.shutdown_timeout(Duration::from_millis(200));
    }
    if let Some(b) = tiny_rt {
        // (a caller that never came back still sits on the pool's only thread: do not wait for it)
        b.shutdown_background();
    }
    crate::msched::BT_ACTIVE.store(false, Ordering::SeqCst);
    let (dls, logs, tell_results) = {
        let sink = crate::msched::BT_SINK.lock().unwrap_or_else(|e| e.into_inner());
        (sink.dls.clone(), sink.logs.clone(), sink.tell_results.clone())
    };
    BRun { order: order.to_vec(), ops, log, dl_count, join, dls, logs, tell_results, actor_id }
}

// ------------------------------------------------------------------ oracles

pub fn check_run(scn: &BScenario, run: &BRun) -> Vec<(String, String)> {
    let mut out: Vec<(String, String)> = Vec::new();
    let mut v = |c: &str, d: String| out.push((c.to_string(), d));
    let called: Vec<u32> = run.log.iter().filter_map(|(_, l)| if let Log::Called(i) = l { Some(*i) } else { None }).collect();
    let op_id = |o: &BOp| -> Option<u32> {
        match o {
            BOp::Tell { id, .. } | BOp::Ask { id, .. } | BOp::TellAlias { id, .. } | BOp::AskAlias { id, .. } | BOp::ATell { id, .. } | BOp::AAsk { id, .. } => Some(*id),
            _ => None,
        }
    };
    let is_tell = |o: &BOp| matches!(o, BOp::Tell { .. } | BOp::TellAlias { .. } | BOp::ATell { .. });
    let is_ask = |o: &BOp| matches!(o, BOp::Ask { .. } | BOp::AskAlias { .. } | BOp::AAsk { .. });
    let timeout_of = |o: &BOp| match o {
        BOp::Tell { timeout, .. } | BOp::Ask { timeout, .. } => *timeout,
        _ => None,
    };
    // at most once
    for id in &called {
        if called.iter().filter(|x| *x == id).count() > 1 {
            v("C17 handled at most once", format!("message {id} handled more than once: {called:?}"));
        }
    }
    let mut failures = 0u64;
    for o in &run.ops {
        let Some(id) = op_id(&o.op) else { continue };
        match &o.res {
            None => v("C17 blocking call returns", format!("op {:?} of caller {} never returned (even after every gate was opened and the actor ended)", o.op, o.caller)),
            Some(BRes::Panicked(m)) => v("C17 no panic", format!("op {:?} (caller context {:?}) panicked: {m}", o.op, scn.callers[o.caller].ctx)),
            Some(BRes::Err(e)) => {
                if !is_precious_id(id) {
                    failures += 1;
                }
                // rejected messages are never handled: tell errors, ask Send errors
                let rejected = is_tell(&o.op) || e == "Send";
                if rejected && called.contains(&id) {
                    v("C17 a failed send is never handled", format!("op {:?} returned Err({e}) but message {id} was handled", o.op));
                }
                if e == "Timeout" {
                    match timeout_of(&o.op) {
                        None => v("C17 timeout only when asked for", format!("op {:?} has no timeout (aliases ignore theirs) but returned Timeout", o.op)),
                        Some(t) => {
                            let dur = o.end_ms.unwrap() - o.start_ms;
                            if dur + 2 < t {
                                v("C17 never early", format!("op {:?} timed out after {dur} ms", o.op));
                            }
                            if dur > t.saturating_add(LATE_MS) {
                                v("C17 returns by its deadline", format!("op {:?} returned Timeout only after {dur} ms", o.op));
                            }
                        }
                    }
                }
            }
            Some(BRes::Reply(val)) => {
                let exit = run.log.iter().find_map(|(_, l)| if let Log::Exit(i, s) = l { if *i == id { Some(*s) } else { None } } else { None });
                match exit {
                    Some(s) if id * 100 + s == *val => {}
                    other => v("C17 reply integrity", format!("op {:?} got {val}, handler exit {other:?}", o.op)),
                }
            }
            Some(BRes::Ok) => {
                if is_ask(&o.op) {
                    v("C17 machinery", format!("ask returned unit: {:?}", o.op));
                }
            }
        }
        // a bounded call is back by its deadline (+ tolerance), whatever the outcome
        if let (Some(t), Some(e)) = (timeout_of(&o.op), o.end_ms) {
            if e - o.start_ms > t.saturating_add(LATE_MS) {
                v("C17 returns by its deadline", format!("op {:?} returned after {} ms", o.op, e - o.start_ms));
            }
        }
    }
    // a send fails with Send only when the actor is gone; a full mailbox makes it wait instead
    // a message whose handler panics ends the actor too, at some moment after it was dispatched
    let crash_possible_from = run.ops.iter().filter(|o| op_id(&o.op).map(is_panicking_id).unwrap_or(false)).map(|o| o.started_at_step).min();
    let first_end_step = run.ops.iter().filter(|o| matches!(o.op, BOp::Stop | BOp::Kill)).map(|o| o.started_at_step).chain(crash_possible_from).min();
    for o in &run.ops {
        if op_id(&o.op).is_none() {
            continue;
        }
        if let Some(BRes::Err(e)) = &o.res {
            if e == "Send" || e == "Receive" {
                let actor_was_ending = match (first_end_step, o.ended_by_step) {
                    (Some(s), Some(e)) => e >= s,
                    (Some(_), None) => true,
                    (None, Some(e)) => e > run.order.len(), // only the final clean-up stop can explain it
                    (None, None) => true,
                };
                if !actor_was_ending {
                    v("C17 a send waits rather than fails", format!("op {:?} returned Err({e}) while the actor was alive and nobody had stopped or killed it", o.op));
                    if timeout_of(&o.op).is_some() {
                        v("C17 bounded call reports only real failures", format!("op {:?} returned Err({e}) although the actor was alive, nothing had failed and its deadline had not passed", o.op));
                    }
                }
            }
        }
    }
    // accepted before the end => handled (tells that returned Ok; the actor is stopped gracefully at the end unless killed)
    let killed = run.ops.iter().any(|o| matches!(o.op, BOp::Kill)) || crash_possible_from.is_some();
    let stop_step = run.ops.iter().find(|o| matches!(o.op, BOp::Stop)).map(|o| o.started_at_step);
    if !killed {
        for o in &run.ops {
            let Some(id) = op_id(&o.op) else { continue };
            let accepted = match &o.res {
                Some(BRes::Ok) => is_tell(&o.op),
                Some(BRes::Reply(_)) => true,
                _ => false,
            };
            let before_stop = match (stop_step, o.ended_by_step) {
                (Some(s), Some(e)) => e < s,
                (Some(_), None) => false,
                (None, _) => true,
            };
            if accepted && before_stop && !called.contains(&id) {
                v("C17 accepted message is handled", format!("op {:?} was accepted but message {id} was never handled; handled: {called:?}", o.op));
            }
        }
    }
    // order: an op that returned before another started is handled first; includes each caller's program order
    for a in &run.ops {
        for b in &run.ops {
            let (Some(ia), Some(ib)) = (op_id(&a.op), op_id(&b.op)) else { continue };
            if ia == ib {
                continue;
            }
            let a_accepted = matches!(&a.res, Some(BRes::Ok) | Some(BRes::Reply(_)));
            let observed_first = a_accepted && a.ended_by_step.map(|e| e < b.started_at_step).unwrap_or(false);
            // a plain thread runs its operations strictly one after the other
            let program_order = a_accepted && a.caller == b.caller && a.idx < b.idx && scn.callers[a.caller].ctx == Ctx::Thread;
            let a_done_first = observed_first || program_order;
            if a_done_first {
                let (pa, pb) = (called.iter().position(|x| *x == ia), called.iter().position(|x| *x == ib));
                if let (Some(pa), Some(pb)) = (pa, pb) {
                    if pb < pa {
                        v("C17 handling order", format!("{ia} was accepted before {ib} was sent, yet handled after it: {called:?}"));
                    }
                }
            }
        }
    }
    // aliases ignore their timeout: they behave like None, i.e. they are still waiting while their gate is closed
    // (checked through "Timeout only when asked for" above and through completion after the gates open)
    // dead letters: exactly one per failed delivery
    // (scenarios with messages whose destructor panics are left out of the accounting clauses: depending on where the
    // message is dropped, the unwinding does or does not skip the record)
    let has_precious = run.ops.iter().any(|o| op_id(&o.op).map(is_precious_id).unwrap_or(false) || matches!(o.op, BOp::Burst { .. } | BOp::BgBoundedAsks { .. }));
    if let Some(dl) = run.dl_count {
        if dl != failures && !has_precious {
            v("C17 one dead letter per failed delivery", format!("dead_letter_count() = {dl}, failed operations = {failures}"));
        }
    }
    // the records themselves: every one names this actor and the message type, and the reasons are those of the errors
    {
        let want_type = std::any::type_name::<Work>();
        for d in &run.dls {
            if d.actor_id != run.actor_id || (d.msg_type != want_type && d.msg_type != std::any::type_name::<Bulk>()) {
                v("C17 dead letter names target and message type", format!("record {d:?}; the target is actor {} and the message type {want_type}", run.actor_id));
            }
        }
        let mut want: std::collections::BTreeMap<&str, i64> = Default::default();
        for o in &run.ops {
            match op_id(&o.op) {
                // (a message whose destructor panics when the failed send hands it back: the unwinding skips the record)
                Some(id) if is_precious_id(id) => continue,
                None => continue,
                _ => {}
            }
            if let Some(BRes::Err(e)) = &o.res {
                let reason = match e.as_str() {
                    "Send" => "actor stopped",
                    "Timeout" => "timeout",
                    "Receive" => "reply dropped",
                    _ => "?",
                };
                *want.entry(reason).or_default() += 1;
            }
        }
        let mut got: std::collections::BTreeMap<&str, i64> = Default::default();
        for d in &run.dls {
            *got.entry(d.reason.as_str()).or_default() += 1;
        }
        if want != got && run.ops.iter().all(|o| o.res.is_some()) && !has_precious {
            v("C17 dead letter reasons match the errors", format!("errors returned: {want:?}; dead letters recorded: {got:?}"));
        }
        for d in &run.dls {
            let fam_ok = d.op.contains("tell") || d.op.contains("ask");
            if !fam_ok {
                v("C17 dead letter names the operation", format!("record {d:?}"));
            }
        }
    }
    // on_tell_result: exactly once after a tell whose handler returned, never after an ask
    for o in &run.ops {
        let Some(id) = op_id(&o.op) else { continue };
        let exited = run.log.iter().any(|(_, l)| matches!(l, Log::Exit(i, _) if *i == id));
        let n = run.tell_results.iter().filter(|x| **x == id).count();
        if is_ask(&o.op) && n != 0 {
            v("C17 on_tell_result never after an ask", format!("op {:?}: on_tell_result ran {n} time(s)", o.op));
        }
        if is_tell(&o.op) && exited && n != 1 {
            v("C17 on_tell_result exactly once after a tell", format!("op {:?}: the handler returned, on_tell_result ran {n} time(s)", o.op));
        }
        if is_tell(&o.op) && !exited && n != 0 {
            v("C17 on_tell_result exactly once after a tell", format!("op {:?}: the handler never returned, yet on_tell_result ran {n} time(s)", o.op));
        }
    }
    // the framework itself logs nothing at warn level or above about a delivery that went well
    for l in &run.logs {
        if l.contains("Failed to send reply") {
            let gave_up = run.ops.iter().any(|o| is_ask(&o.op) && matches!(&o.res, Some(BRes::Err(e)) if e == "Timeout"));
            if !gave_up {
                v("C17 on_tell_result exactly once after a tell", format!("the framework logged {l:?} although no asker gave up: a tell was sent as an ask"));
            }
        }
    }
    if run.join == "JoinTimeout" {
        v("C17 machinery", "actor did not end".into());
    }
    out
}

// ------------------------------------------------------------------ scenarios

pub fn scenarios(thorough: bool) -> Vec<BScenario> {
    let mut v = Vec::new();
    let t = |id, gate, timeout| BOp::Tell { id, gate, timeout };
    let a = |id, gate, timeout| BOp::Ask { id, gate, timeout };
    // S1: two blocking threads and an async sender against a gated handler, capacity 1
    v.push(BScenario {
        name: "b1-mixed-cap1".into(),
        cap: 1,
        gates: 1,
        pool: None,
        callers: vec![
            BCaller { erased: false, ctx: Ctx::Thread, ops: vec![t(1, Some(0), None), t(2, None, None)] },
            BCaller { erased: false, ctx: Ctx::Thread, ops: vec![a(3, None, None)] },
            BCaller { erased: false, ctx: Ctx::Async, ops: vec![BOp::ATell { id: 4, gate: None }] },
            BCaller { erased: false, ctx: Ctx::Async, ops: vec![BOp::OpenGate(0)] },
        ],
    });
    // S2: timeouts against a full mailbox / a silent actor
    for to in [50u64, 300] {
        if to == 300 && !thorough {
            continue;
        }
        v.push(BScenario {
            name: format!("b2-timeouts-{to}"),
            cap: 1,
            gates: 1,
        pool: None,
            callers: vec![
                BCaller { erased: false, ctx: Ctx::Thread, ops: vec![t(1, Some(0), None), t(2, None, None)] },
                BCaller { erased: false, ctx: Ctx::Thread, ops: vec![t(3, None, Some(to))] },
                BCaller { erased: false, ctx: Ctx::SpawnBlocking, ops: vec![a(4, None, Some(to))] },
                BCaller { erased: false, ctx: Ctx::Async, ops: vec![BOp::OpenGate(0)] },
            ],
        });
    }
    // S3: the actor stops / is killed while blocking callers use it
    for end in [BOp::Stop, BOp::Kill] {
        v.push(BScenario {
            name: format!("b3-ending-{end:?}"),
            cap: 2,
            gates: 1,
        pool: None,
            callers: vec![
                BCaller { erased: false, ctx: Ctx::Thread, ops: vec![a(1, Some(0), None)] },
                BCaller { erased: false, ctx: Ctx::Thread, ops: vec![a(2, None, None), t(3, None, Some(50))] },
                BCaller { erased: false, ctx: Ctx::Async, ops: vec![end.clone(), BOp::OpenGate(0)] },
            ],
        });
    }
    // S4: deprecated aliases ignore their timeout
    v.push(BScenario {
        name: "b4-aliases".into(),
        cap: 1,
        gates: 1,
        pool: None,
        callers: vec![
            BCaller { erased: false, ctx: Ctx::Thread, ops: vec![t(1, Some(0), None), t(2, None, None)] },
            BCaller { erased: false, ctx: Ctx::Thread, ops: vec![BOp::TellAlias { id: 3, gate: None, timeout: Some(30) }] },
            BCaller { erased: false, ctx: Ctx::SpawnBlocking, ops: vec![BOp::AskAlias { id: 4, gate: None, timeout: Some(30) }] },
            BCaller { erased: false, ctx: Ctx::Async, ops: vec![BOp::OpenGate(0)] },
        ],
    });
    // S5: timeout variants called from inside the async runtime, next to async traffic
    v.push(BScenario {
        name: "b5-in-async".into(),
        cap: 2,
        gates: 1,
        pool: None,
        callers: vec![
            BCaller { erased: false, ctx: Ctx::InAsync, ops: vec![a(1, Some(0), Some(60))] },
            BCaller { erased: false, ctx: Ctx::InAsync, ops: vec![t(2, None, Some(60))] },
            BCaller { erased: false, ctx: Ctx::Async, ops: vec![BOp::AAsk { id: 3, gate: None }] },
            BCaller { erased: false, ctx: Ctx::Async, ops: vec![BOp::OpenGate(0)] },
        ],
    });
    // S7: a bounded ask gives up while its message is still queued; then the actor is killed / stopped
    for end in [BOp::Kill, BOp::Stop] {
        v.push(BScenario {
            name: format!("b7-gave-up-then-{end:?}"),
            cap: 2,
            gates: 1,
        pool: None,
            callers: vec![
                BCaller { erased: false, ctx: Ctx::Thread, ops: vec![t(1, Some(0), None)] },
                BCaller { erased: false, ctx: Ctx::Thread, ops: vec![a(2, None, Some(50)), t(3, None, Some(50))] },
                BCaller { erased: false, ctx: Ctx::Async, ops: vec![end.clone(), BOp::OpenGate(0)] },
            ],
        });
    }
    // S8: the same traffic as S1/S2 through type-erased handlers (TellHandler::blocking_tell, AskHandler::blocking_ask)
    v.push(BScenario {
        name: "b8-erased".into(),
        cap: 1,
        gates: 1,
        pool: None,
        callers: vec![
            BCaller { erased: true, ctx: Ctx::Thread, ops: vec![t(1, Some(0), None), t(2, None, None)] },
            BCaller { erased: true, ctx: Ctx::Thread, ops: vec![t(3, None, Some(50))] },
            BCaller { erased: true, ctx: Ctx::SpawnBlocking, ops: vec![a(4, None, Some(50))] },
            BCaller { erased: false, ctx: Ctx::Async, ops: vec![BOp::OpenGate(0)] },
        ],
    });
    // S9: the no-timeout forms from spawn_blocking threads (which carry a runtime context) into a full mailbox
    v.push(BScenario {
        name: "b9-spawn-blocking-full".into(),
        cap: 1,
        gates: 1,
        pool: None,
        callers: vec![
            BCaller { erased: false, ctx: Ctx::Thread, ops: vec![t(1, Some(0), None), t(2, None, None)] },
            BCaller { erased: false, ctx: Ctx::SpawnBlocking, ops: vec![t(3, None, None)] },
            BCaller { erased: false, ctx: Ctx::SpawnBlocking, ops: vec![a(4, None, None)] },
            BCaller { erased: false, ctx: Ctx::Async, ops: vec![BOp::OpenGate(0)] },
        ],
    });
    // S10: the gate stays closed far beyond every deadline: bounded calls (direct and type-erased) must come back on time
    v.push(BScenario {
        name: "b10a-deadline-held-tell".into(),
        cap: 1,
        gates: 1,
        pool: None,
        callers: vec![
            BCaller { erased: false, ctx: Ctx::Thread, ops: vec![t(1, Some(0), None), t(2, None, None)] },
            BCaller { erased: true, ctx: Ctx::Thread, ops: vec![t(3, None, Some(50))] },
            BCaller { erased: false, ctx: Ctx::Async, ops: vec![BOp::Wait(1200), BOp::OpenGate(0)] },
        ],
    });
    v.push(BScenario {
        name: "b10b-deadline-held-ask".into(),
        cap: 2,
        gates: 1,
        pool: None,
        callers: vec![
            BCaller { erased: false, ctx: Ctx::Thread, ops: vec![t(1, Some(0), None)] },
            BCaller { erased: true, ctx: Ctx::SpawnBlocking, ops: vec![a(4, None, Some(50))] },
            BCaller { erased: false, ctx: Ctx::Thread, ops: vec![a(5, None, Some(50))] },
            BCaller { erased: false, ctx: Ctx::Async, ops: vec![BOp::Wait(1200), BOp::OpenGate(0)] },
        ],
    });
    // S11: callers of the no-timeout forms are parked on a full mailbox when the actor is killed / stopped
    for end in [BOp::Kill, BOp::Stop] {
        v.push(BScenario {
            name: format!("b11-parked-then-{end:?}"),
            cap: 1,
            gates: 1,
        pool: None,
            callers: vec![
                BCaller { erased: false, ctx: Ctx::Thread, ops: vec![t(1, Some(0), None), t(2, None, None)] },
                BCaller { erased: false, ctx: Ctx::Thread, ops: vec![t(3, None, None)] },
                BCaller { erased: false, ctx: Ctx::SpawnBlocking, ops: vec![a(4, None, None)] },
                BCaller { erased: false, ctx: Ctx::Async, ops: vec![end.clone(), BOp::OpenGate(0)] },
            ],
        });
    }
    // S12: a long bounded call is legitimately waiting when a short one starts: the short one has its own deadline
    v.push(BScenario {
        name: "b12-long-and-short-deadline".into(),
        cap: 2,
        gates: 1,
        pool: None,
        callers: vec![
            BCaller { erased: false, ctx: Ctx::Thread, ops: vec![t(1, Some(0), None), a(2, None, Some(2500))] },
            BCaller { erased: false, ctx: Ctx::Thread, ops: vec![a(3, None, Some(50))] },
            BCaller { erased: false, ctx: Ctx::Async, ops: vec![BOp::Wait(1000), BOp::OpenGate(0)] },
        ],
    });
    // S13: timeout variants called from async code that a current-thread runtime drives
    v.push(BScenario {
        name: "b13-in-current-thread-runtime".into(),
        cap: 2,
        gates: 1,
        pool: None,
        callers: vec![
            BCaller { erased: false, ctx: Ctx::InCurrentThread, ops: vec![t(1, None, Some(60)), a(2, Some(0), Some(60))] },
            BCaller { erased: true, ctx: Ctx::InCurrentThread, ops: vec![a(3, None, Some(60))] },
            BCaller { erased: false, ctx: Ctx::Async, ops: vec![BOp::OpenGate(0)] },
        ],
    });
    // S14: a handler panics while callers of the no-timeout forms are parked on the full mailbox, and while an
    // asker waits for the reply of the panicking handler itself
    v.push(BScenario {
        name: "b14-crash-parked".into(),
        cap: 1,
        gates: 1,
        pool: None,
        callers: vec![
            BCaller { erased: false, ctx: Ctx::Thread, ops: vec![t(90, Some(0), None), t(2, None, None)] },
            BCaller { erased: false, ctx: Ctx::Thread, ops: vec![t(3, None, None)] },
            BCaller { erased: false, ctx: Ctx::SpawnBlocking, ops: vec![a(4, None, None)] },
            BCaller { erased: false, ctx: Ctx::Async, ops: vec![BOp::OpenGate(0)] },
        ],
    });
    v.push(BScenario {
        name: "b15-crash-asker-waiting".into(),
        cap: 2,
        gates: 1,
        pool: None,
        callers: vec![
            BCaller { erased: false, ctx: Ctx::Thread, ops: vec![a(91, Some(0), None)] },
            BCaller { erased: false, ctx: Ctx::Thread, ops: vec![a(2, None, Some(400)), t(3, None, None)] },
            BCaller { erased: true, ctx: Ctx::SpawnBlocking, ops: vec![a(4, None, None)] },
            BCaller { erased: false, ctx: Ctx::Async, ops: vec![BOp::OpenGate(0)] },
        ],
    });
    // S16: a bounded call from async code on a current-thread runtime while the gate stays closed far beyond its deadline
    v.push(BScenario {
        name: "b16-in-current-thread-deadline-held".into(),
        cap: 2,
        gates: 1,
        pool: None,
        callers: vec![
            BCaller { erased: false, ctx: Ctx::InCurrentThread, ops: vec![a(1, Some(0), Some(60))] },
            BCaller { erased: false, ctx: Ctx::Async, ops: vec![BOp::Wait(1000), BOp::OpenGate(0)] },
        ],
    });
    // S17: bounded calls from spawn_blocking threads of a runtime that has no time driver
    v.push(BScenario {
        name: "b17-spawn-blocking-bare-runtime".into(),
        cap: 2,
        gates: 1,
        pool: None,
        callers: vec![
            BCaller { erased: false, ctx: Ctx::SpawnBlockingBareRt, ops: vec![t(1, None, Some(60)), a(2, Some(0), Some(60))] },
            BCaller { erased: true, ctx: Ctx::SpawnBlockingBareRt, ops: vec![a(3, None, Some(60))] },
            BCaller { erased: false, ctx: Ctx::Async, ops: vec![BOp::OpenGate(0)] },
        ],
    });
    // S18: bounded calls whose helper thread dies (the message's destructor panics when the dead actor's mailbox
    // hands it back): that is a failure of its own kind, reported at once - not a timeout
    v.push(BScenario {
        name: "b18-helper-thread-dies".into(),
        cap: 2,
        gates: 0,
        pool: None,
        callers: vec![
            BCaller { erased: false, ctx: Ctx::Async, ops: vec![BOp::Stop] },
            BCaller { erased: false, ctx: Ctx::Thread, ops: vec![BOp::Wait(100), t(80, None, Some(2000)), a(81, None, Some(2000))] },
            BCaller { erased: true, ctx: Ctx::SpawnBlocking, ops: vec![BOp::Wait(100), a(82, None, Some(2000))] },
        ],
    });
    // S19: bounded calls from the only thread of a runtime's blocking pool
    v.push(BScenario {
        name: "b19-spawn-blocking-pool-of-one".into(),
        cap: 2,
        gates: 1,
        pool: None,
        callers: vec![
            BCaller { erased: false, ctx: Ctx::SpawnBlockingTinyPool, ops: vec![a(1, Some(0), Some(100)), t(2, None, Some(100))] },
            BCaller { erased: false, ctx: Ctx::Async, ops: vec![BOp::Wait(300), BOp::OpenGate(0)] },
        ],
    });
    // S20: the actor is killed with a backlog of 40 while both threads of its runtime's blocking pool sit in
    // blocking_ask on it: they get their errors and come back
    v.push(BScenario {
        name: "b20-killed-with-backlog-pool-of-two".into(),
        cap: 64,
        gates: 1,
        pool: Some(2),
        callers: vec![
            BCaller { erased: false, ctx: Ctx::Thread, ops: vec![t(1, Some(0), None)] },
            BCaller { erased: false, ctx: Ctx::SpawnBlocking, ops: vec![a(50, None, None)] },
            BCaller { erased: false, ctx: Ctx::SpawnBlocking, ops: vec![a(51, None, None)] },
            BCaller { erased: false, ctx: Ctx::Async, ops: vec![BOp::Burst { first: 100, n: 40 }, BOp::Kill, BOp::OpenGate(0)] },
        ],
    });
    // S21: eighty threads are inside bounded blocking asks (3 s) on a busy actor when one more bounded ask (100 ms)
    // is made: it has its own deadline
    v.push(BScenario {
        name: "b21-many-bounded-calls-in-flight".into(),
        cap: 64,
        gates: 1,
        pool: None,
        callers: vec![
            BCaller { erased: false, ctx: Ctx::Async, ops: vec![BOp::BgBoundedAsks { first: 200, n: 80, gate: 0, timeout: 3000 }] },
            BCaller { erased: false, ctx: Ctx::Thread, ops: vec![a(9, Some(0), Some(100))] },
            BCaller { erased: false, ctx: Ctx::Async, ops: vec![BOp::Wait(1500), BOp::OpenGate(0)] },
        ],
    });
    // S22: bulky messages (128 KiB inline) through every blocking form
    v.push(BScenario {
        name: "b22-bulky-messages".into(),
        cap: 2,
        gates: 0,
        pool: None,
        callers: vec![
            BCaller { erased: false, ctx: Ctx::Thread, ops: vec![t(70, None, Some(500)), a(71, None, Some(500))] },
            BCaller { erased: false, ctx: Ctx::SpawnBlocking, ops: vec![a(72, None, None), t(73, None, None)] },
        ],
    });
    // S23: a caller thread that carries a stale unpark token when it makes its bounded calls
    v.push(BScenario {
        name: "b23-stale-unpark-token".into(),
        cap: 1,
        gates: 1,
        pool: None,
        callers: vec![
            BCaller { erased: false, ctx: Ctx::Thread, ops: vec![t(1, Some(0), None), t(2, None, None)] },
            BCaller { erased: false, ctx: Ctx::Thread, ops: vec![BOp::Unpark, t(3, None, Some(200)), a(4, None, Some(200))] },
            BCaller { erased: false, ctx: Ctx::Async, ops: vec![BOp::Wait(1000), BOp::OpenGate(0)] },
        ],
    });
    // S24: bounded calls made from inside a runtime (a worker of a multi-thread runtime, the thread of a current-thread
    // one) when the actor has already ended (its mailbox is closed at the time of the call)
    for end in [BOp::Stop, BOp::Kill] {
        v.push(BScenario {
            name: format!("b24-bounded-calls-to-an-ended-actor-{end:?}"),
            cap: 2,
            gates: 0,
            pool: None,
            callers: vec![
                BCaller { erased: false, ctx: Ctx::InAsync, ops: vec![t(1, None, Some(300)), a(2, None, Some(300))] },
                BCaller { erased: false, ctx: Ctx::InCurrentThread, ops: vec![a(3, None, Some(300)), t(4, None, Some(300))] },
                BCaller { erased: false, ctx: Ctx::Async, ops: vec![end.clone(), BOp::Wait(150)] },
            ],
        });
        if thorough {
            // the same with erased handles, a caller on the blocking pool and a plain thread next to the runtime threads
            v.push(BScenario {
                name: format!("b24t-bounded-calls-to-an-ended-actor-erased-{end:?}"),
                cap: 2,
                gates: 0,
                pool: None,
                callers: vec![
                    BCaller { erased: true, ctx: Ctx::InAsync, ops: vec![a(1, None, Some(300)), t(2, None, Some(300))] },
                    BCaller { erased: true, ctx: Ctx::InCurrentThread, ops: vec![t(3, None, Some(300))] },
                    BCaller { erased: true, ctx: Ctx::SpawnBlocking, ops: vec![t(4, None, Some(300))] },
                    BCaller { erased: false, ctx: Ctx::Thread, ops: vec![a(5, None, Some(300))] },
                    BCaller { erased: false, ctx: Ctx::Async, ops: vec![end.clone(), BOp::Wait(150)] },
                ],
            });
        }
    }
    // S6: unusual timeout values
    v.push(BScenario {
        name: "b6-extreme-timeouts".into(),
        cap: 2,
        gates: 0,
        pool: None,
        callers: vec![
            BCaller { erased: false, ctx: Ctx::Thread, ops: vec![a(1, None, Some(u64::MAX)), t(2, None, Some(u64::MAX))] },
            BCaller { erased: false, ctx: Ctx::SpawnBlocking, ops: vec![a(3, None, Some(0)), t(4, None, Some(0))] },
        ],
    });
    v
}
