//! Oracles: implications whose premise is read off the trace and whose conclusion is in the property text.

use crate::explore::Violation;
use crate::ix::*;
use crate::model::*;

thread_local! {
    /// how often a non-trivial premise of an oracle was met (vacuity guard, reported in the evidence)
    pub static PREMISES: std::cell::Cell<u64> = std::cell::Cell::new(0);
}

fn premise() {
    PREMISES.with(|p| p.set(p.get() + 1));
}

pub fn take_premises() -> u64 {
    PREMISES.with(|p| p.replace(0))
}

fn v(out: &mut Vec<Violation>, clause: &str, detail: String) {
    out.push(Violation { clause: clause.to_string(), detail });
}

fn is_tell(k: SendKind) -> bool {
    matches!(k, SendKind::Tell | SendKind::TellTO(_))
}

/// the actor is one for which "neither killed nor crashes" holds in this trace
fn calm(ix: &Ix, a: usize) -> bool {
    let ax = &ix.actors[a];
    ax.started_ok() && !ax.crashed() && ax.run_err().is_none() && ix.first_kill(a).is_none()
}

/// position at which the message of a send op is known to be in the mailbox
fn accepted_at(ix: &Ix, o: &OpRec) -> Option<usize> {
    let k = o.send_kind()?;
    if ix.scn.has_tag("roomy") {
        // capacity exceeds the number of messages: a send to a live mailbox completes in the poll it starts in
        return match &o.res {
            Some(Res::Err { k: ErrK::Send, .. }) => None,
            Some(Res::Err { k: ErrK::Timeout, .. }) if is_tell(k) => None,
            _ => Some(o.start),
        };
    }
    if is_tell(k) {
        return if matches!(o.res, Some(Res::Ok)) { o.end } else { None };
    }
    if o.route == "join-room" && o.res.is_none() && !deadlock_panicked(ix, o) {
        // an ask that found a free slot and whose caller then unwound: the envelope went in with the first poll
        return Some(o.start);
    }
    match &o.res {
        Some(Res::Rep { .. }) | Some(Res::Str(_)) | Some(Res::Join(_)) | Some(Res::RepR(_)) | Some(Res::Unit) => o.end,
        Some(Res::Err { k: ErrK::Receive, .. }) | Some(Res::Err { k: ErrK::JoinPanic, .. }) | Some(Res::Err { k: ErrK::JoinCancelled, .. }) => o.end,
        _ => None,
    }
}

// ------------------------------------------------------------------ C01

pub fn c01(scn: &Scenario, tr: &[Ev]) -> Vec<Violation> {
    let ix = Ix::new(scn, tr);
    let mut out = Vec::new();
    for (a, ax) in ix.actors.iter().enumerate() {
        // (a) at most once
        for (m, calls) in &ax.handler_called {
            if calls.len() > 1 {
                v(&mut out, "C01a handled at most once", format!("actor {a} message {m} handled {} times", calls.len()));
            }
        }
        // (b) rejected sends are never handled
        for o in ix.sends_to(a) {
            let k = o.send_kind().unwrap();
            let rejected = match (&o.res, is_tell(k)) {
                (Some(Res::Err { k: ErrK::Send, .. }), _) => true,
                (Some(Res::Err { k: ErrK::Timeout, .. }), true) => true,
                _ => false,
            };
            if rejected {
                premise();
                if let Some(m) = o.msg {
                    if ax.handler_called.contains_key(&m) {
                        v(&mut out, "C01b rejected message handled", format!("actor {a} message {m}: sender got {:?} but the handler ran", o.res));
                    }
                }
            }
        }
        // (c) accepted before stop / last drop => handled exactly once before on_stop
        if calm(&ix, a) {
            let first_stop = ix.first_stop(a);
            let stopcall = ax.on_stop_called.first().map(|x| x.0);
            let idle_at_end = !ix.hook_stuck(a);
            for o in ix.sends_to(a) {
                let (Some(m), Some(acc)) = (o.msg, accepted_at(&ix, o)) else { continue };
                if let Some(s) = first_stop {
                    if acc > s {
                        continue;
                    }
                }
                let called = ax.handler_called.get(&m).and_then(|c| c.first().copied());
                premise();
                match (called, stopcall) {
                    (Some(c), Some(s)) if c > s => v(&mut out, "C01c handled before on_stop", format!("actor {a} message {m} handled after on_stop began")),
                    (None, Some(_)) => v(&mut out, "C01c accepted work discarded", format!("actor {a} message {m} was accepted (op {}) before stop/drop but on_stop ran without it being handled", o.op)),
                    (None, None) if idle_at_end => v(&mut out, "C01c accepted work lost", format!("actor {a} message {m} was accepted (op {}) but never handled although the actor is idle", o.op)),
                    _ => {}
                }
            }
        }
        // (d) a reply implies the handler ran before it
        for o in ix.sends_to(a) {
            if let (Some(m), Some(Res::Rep { .. } | Res::Str(_) | Res::RepR(_)), Some(e)) = (o.msg, &o.res, o.end) {
                match ax.handler_exit.get(&m) {
                    Some((x, _)) if *x < e => {}
                    _ => v(&mut out, "C01d reply without handler", format!("actor {a} message {m}: ask returned Ok but the handler had not finished")),
                }
            }
        }
    }
    out
}

// ------------------------------------------------------------------ C02

pub fn c02(scn: &Scenario, tr: &[Ev]) -> Vec<Violation> {
    let ix = Ix::new(scn, tr);
    let mut out = Vec::new();
    for (a, ax) in ix.actors.iter().enumerate() {
        let sends: Vec<&OpRec> = ix.sends_to(a).collect();
        for o1 in &sends {
            let Some(acc1) = accepted_at(&ix, o1) else { continue };
            let Some(m1) = o1.msg else { continue };
            let Some(c1) = ax.handler_called.get(&m1).and_then(|c| c.first()) else { continue };
            for o2 in &sends {
                if o1.op == o2.op {
                    continue;
                }
                let Some(m2) = o2.msg else { continue };
                if acc1 < o2.start {
                    premise();
                    if let Some(c2) = ax.handler_called.get(&m2).and_then(|c| c.first()) {
                        if c2 < c1 {
                            v(&mut out, "C02 order", format!("actor {a}: send of {m1} completed (pos {acc1}) before send of {m2} began (pos {}), yet {m2} was handled first", o2.start));
                        }
                    }
                }
            }
        }
        // stop takes its place in the same order
        if ax.started_ok() && !ax.crashed() && ix.first_kill(a).is_none() {
            for s in ix.stops_of(a) {
                if !matches!(s.res, Some(Res::Ok)) {
                    continue;
                }
                let Some(se) = s.end else { continue };
                for o in &sends {
                    if o.start > se {
                        if let Some(m) = o.msg {
                            if ax.handler_called.contains_key(&m) {
                                v(&mut out, "C02 after stop", format!("actor {a}: message {m} was sent after stop() had returned and was still handled"));
                            }
                        }
                    }
                }
            }
            if ax.run_err().is_none() {
                if let (Some(fs), Some((sc, _))) = (ix.first_stop(a), ax.on_stop_called.first()) {
                    for o in &sends {
                        let (Some(m), Some(acc)) = (o.msg, accepted_at(&ix, o)) else { continue };
                        if acc < fs {
                            match ax.handler_called.get(&m).and_then(|c| c.first()) {
                                Some(c) if c < sc => {}
                                _ => v(&mut out, "C02 before stop", format!("actor {a}: message {m} was accepted before stop() was called but not handled before on_stop")),
                            }
                        }
                    }
                }
            }
        }
    }
    out
}

// ------------------------------------------------------------------ C03

pub fn c03(scn: &Scenario, tr: &[Ev]) -> Vec<Violation> {
    let ix = Ix::new(scn, tr);
    let mut out = Vec::new();
    for o in ix.ops.iter() {
        let Some(k) = o.send_kind() else { continue };
        let (Some(a), Some(m)) = (o.target, o.msg) else { continue };
        let ax = &ix.actors[a];
        let exit = ax.handler_exit.get(&m);
        match &o.res {
            Some(Res::Rep { id, seq, actor }) => {
                premise();
                let want = exit.map(|(_, s)| s.clone()).unwrap_or_default();
                if *id != m || *actor != a || !want.ends_with(&format!("#{seq}")) || exit.map(|x| x.0) > o.end {
                    v(&mut out, "C03 reply integrity", format!("ask {m} to actor {a} returned Rep(id={id},seq={seq},actor={actor}); handler exit recorded {want:?}"));
                }
            }
            Some(Res::Str(s)) => {
                let seq = exit.and_then(|(_, s)| s.rsplit('#').next().map(|x| x.to_string())).unwrap_or_default();
                if *s != format!("{m}:{seq}:{a}") || exit.map(|x| x.0) > o.end || exit.is_none() {
                    v(&mut out, "C03 reply integrity", format!("ask {m} to actor {a} returned {s:?}, handler produced {m}:{seq}:{a}"));
                }
            }
            Some(Res::RepR(r)) => {
                let spec = ix.msg_spec(m);
                let want: Option<Result<u32, String>> = spec.map(|sp| match sp.out {
                    Outcome::Err(t) => Err(format!("{m}:{t}:{a}")),
                    _ => Ok(m),
                });
                if Some(r.clone()) != want || exit.is_none() {
                    v(&mut out, "C03 reply integrity", format!("ask {m} to actor {a} returned {r:?}, expected {want:?}"));
                }
            }
            Some(Res::Join(val)) if k == SendKind::AskJoin => {
                let seq = exit.and_then(|(_, s)| s.rsplit('#').next().and_then(|x| x.parse::<u32>().ok()));
                let end = ix.msg_spec(m).map(|s| s.task_end);
                if seq.map(|s| m * 1000 + s) != Some(*val) || end != Some(TaskEnd::Value) {
                    v(&mut out, "C03 ask_join value", format!("ask_join {m} returned {val}, handler seq {seq:?}, task end {end:?}"));
                }
            }
            Some(Res::Err { k: ek, .. }) if k == SendKind::AskJoin => {
                let end = ix.msg_spec(m).map(|s| s.task_end);
                // once the handler has replied with the JoinHandle, only the task's own fate may be reported
                let replied = exit.map(|(_, s)| s.starts_with("Ok")).unwrap_or(false);
                match ek {
                    ErrK::JoinPanic if end != Some(TaskEnd::Panic) => v(&mut out, "C03 ask_join error", format!("ask_join {m}: Join(panic) but task end is {end:?}")),
                    ErrK::JoinCancelled if end != Some(TaskEnd::Abort) => v(&mut out, "C03 ask_join error", format!("ask_join {m}: Join(cancelled) but task end is {end:?}")),
                    ErrK::JoinPanic | ErrK::JoinCancelled => {}
                    ErrK::Send | ErrK::Receive if !replied => {}
                    other => v(&mut out, "C03 ask_join returns the task's outcome", format!("ask_join {m}: the handler replied with its JoinHandle (task end {end:?}) but ask_join returned {other:?}")),
                }
            }
            Some(Res::Unit) | Some(Res::Ok) => {}
            Some(Res::Join(_)) => {}
            Some(Res::Err { .. }) => {}
            Some(other) => v(&mut out, "C03 machinery", format!("unexpected result {other:?}")),
            None => {
                // pending at terminal quiescence
                if !k.is_ask() {
                    continue;
                }
                if k == SendKind::AskJoin && exit.is_some() {
                    // waiting for the spawned task, which is harness-controlled: it must have run to its end
                    let task_done = tr.iter().any(|e| matches!(&e.k, EvK::Exit { hook: Hook::Task, msg: Some(mm), .. } if *mm == m))
                        || ix.msg_spec(m).map(|s| s.task_end == TaskEnd::Abort).unwrap_or(false);
                    if task_done {
                        v(&mut out, "C03 ask_join never completes", format!("ask_join {m} (op {}) still pending although its task has ended", o.op));
                    }
                    continue;
                }
                if ax.joined.is_some() {
                    v(&mut out, "C03 ask hangs on dead actor", format!("ask {m} (op {}) to actor {a} is still pending although the actor has ended", o.op));
                } else if ix.scn.has_tag("allcomplete") {
                    v(&mut out, "C03 ask never completes", format!("ask {m} (op {}) to actor {a} is still pending at terminal quiescence", o.op));
                }
            }
        }
        // later asks fail at once
        if let (Some((j, _)), true) = (&ax.joined, k.is_ask()) {
            if o.start > *j {
                premise();
                match (&o.res, o.end) {
                    (Some(Res::Err { .. }), Some(_)) => {}
                    other => v(&mut out, "C03 ask after end", format!("ask {m} issued after actor {a} ended: {other:?}")),
                }
            }
        }
    }
    out
}

// ------------------------------------------------------------------ C04

pub fn c04(scn: &Scenario, tr: &[Ev]) -> Vec<Violation> {
    let ix = Ix::new(scn, tr);
    let mut out = Vec::new();
    for (a, ax) in ix.actors.iter().enumerate() {
        if ax.spawned.is_none() {
            continue;
        }
        if ax.on_start_called.len() > 1 {
            v(&mut out, "C04 on_start once", format!("actor {a}: on_start called {} times", ax.on_start_called.len()));
        }
        if !ax.on_stop_called.is_empty() && ax.on_stop_exit.is_none() && !ax.crashed() && ax.joined.as_ref().map(|(_, j)| j.variant != "Panic").unwrap_or(false) {
            v(&mut out, "C04 on_stop runs to its end", format!("actor {a}: on_stop was entered, never returned, and the actor ended all the same"));
        }
        if ax.on_stop_called.len() > 1 {
            v(&mut out, "C04 on_stop at most once", format!("actor {a}: on_stop called {} times", ax.on_stop_called.len()));
        }
        let start_exit = ax.on_start_exit.as_ref();
        let mut in_prog: Option<(Hook, usize, Option<u32>)> = None;
        for (i, h, m) in &ax.calls {
            // nothing before on_start succeeded
            if *h != Hook::OnStart {
                match start_exit {
                    Some((x, o)) if x < i && o == "Ok" => {}
                    _ => v(&mut out, "C04 on_start first", format!("actor {a}: {h:?} called at {i} before on_start completed successfully")),
                }
            }
            // nothing after on_stop began, nothing after a panic
            if let Some((s, _)) = ax.on_stop_called.first() {
                if i > s {
                    v(&mut out, "C04 on_stop last", format!("actor {a}: {h:?} called at {i} after on_stop"));
                }
            }
            if let Some(p) = ax.panics.first() {
                if i > p {
                    v(&mut out, "C04 nothing after panic", format!("actor {a}: {h:?} called at {i} after a panic at {p}"));
                }
            }
            // hooks never overlap
            if let Some((ph, pi, pm)) = in_prog {
                let done = match ph {
                    Hook::OnStart => ax.on_start_exit.as_ref().map(|x| x.0 < *i).unwrap_or(false),
                    Hook::OnStop => ax.on_stop_exit.as_ref().map(|x| x.0 < *i).unwrap_or(false),
                    Hook::Handler => pm.and_then(|m| ax.handler_exit.get(&m)).map(|x| x.0 < *i).unwrap_or(false),
                    Hook::OnRun => ax
                        .runs
                        .iter()
                        .find(|r| r.called == pi)
                        .map(|r| r.exit.as_ref().map(|x| x.0 < *i).unwrap_or(false) || r.cancelled.map(|c| c < *i).unwrap_or(false))
                        .unwrap_or(false),
                    Hook::Task => true,
                };
                if !done {
                    v(&mut out, "C04 hooks sequential", format!("actor {a}: {h:?} called at {i} while {ph:?} (called at {pi}) had not finished"));
                }
            }
            in_prog = Some((*h, *i, *m));
        }
        // on_stop exactly when the actor ends by stop / kill / drop / on_run error
        if let Some((_, js)) = &ax.joined {
            let stop_calls = ax.on_stop_called.len();
            let panic_in_stop = js.variant == "Panic" && stop_calls == 1;
            match js.variant.as_str() {
                "Completed" => {
                    if stop_calls != 1 {
                        v(&mut out, "C04 on_stop on normal end", format!("actor {a} completed but on_stop was called {stop_calls} times"));
                    }
                }
                "Failed" => {
                    let startup = js.phase.as_deref() == Some("OnStart");
                    if startup && stop_calls != 0 {
                        v(&mut out, "C04 no on_stop after failed on_start", format!("actor {a}"));
                    }
                    if !startup && stop_calls != 1 {
                        v(&mut out, "C04 on_stop on failure", format!("actor {a} failed in {:?} but on_stop was called {stop_calls} times", js.phase));
                    }
                }
                "Panic" => {
                    if stop_calls != 0 && !panic_in_stop {
                        v(&mut out, "C04 no on_stop after panic", format!("actor {a}"));
                    }
                    if let (Some(p), Some((s, _))) = (ax.panics.first(), ax.on_stop_called.first()) {
                        if s > p {
                            v(&mut out, "C04 no on_stop after panic", format!("actor {a}: on_stop at {s} after panic at {p}"));
                        }
                    }
                }
                _ => {}
            }
        }
        if ax.start_failed() && !ax.on_stop_called.is_empty() {
            v(&mut out, "C04 no on_stop after failed on_start", format!("actor {a}"));
        }
        // killed flag
        if let Some((s, k)) = ax.on_stop_called.first() {
            premise();
            let via_run_err = ax.run_err().map(|(i, _)| i < *s).unwrap_or(false);
            let kill_before = ix.kills_of(a).any(|o| o.start < *s && matches!(o.res, Some(Res::Ok)));
            if !scn.has_tag("selfkill_in_on_run") {
                if via_run_err {
                    if *k {
                        v(&mut out, "C04 killed flag", format!("actor {a}: on_stop(killed=true) after an on_run error"));
                    }
                } else if *k != kill_before {
                    v(&mut out, "C04 killed flag", format!("actor {a}: on_stop(killed={k}) but kill() before on_stop = {kill_before}"));
                }
            }
        }
        // a cause must exist for on_stop
        if let Some((s, _)) = ax.on_stop_called.first() {
            let cause = ix.kills_of(a).any(|o| o.start < *s)
                || ix.stops_of(a).any(|o| o.start < *s)
                || ax.run_err().map(|(i, _)| i < *s).unwrap_or(false)
                || held_strong(&ix, *s)[a] == 0;
            if !cause {
                v(&mut out, "C04 on_stop without cause", format!("actor {a}: on_stop at {s} with no stop, kill, on_run error or loss of references before it"));
            }
        }
    }
    out
}

// ------------------------------------------------------------------ C05

pub fn c05(scn: &Scenario, tr: &[Ev]) -> Vec<Violation> {
    let ix = Ix::new(scn, tr);
    let mut out = Vec::new();
    for (a, ax) in ix.actors.iter().enumerate() {
        let Some((_, js)) = &ax.joined else { continue };
        premise();
        if !js.laws_ok {
            v(&mut out, "C05 accessor laws", format!("actor {a}: {}", js.laws_detail));
        }
        let spec = &scn.actors[a];
        let panicked = ax.crashed();
        // the result is built from what the hooks returned: an on_stop that was entered and never returned (and did not
        // panic) cannot be behind a Completed / Failed result
        if !ax.on_stop_called.is_empty() && ax.on_stop_exit.is_none() && !panicked && js.variant != "Panic" {
            v(&mut out, "C05 result truthful", format!("actor {a}: the JoinHandle gave {} although on_stop had been entered and never returned", js.variant));
        }
        if panicked != (js.variant == "Panic") {
            v(&mut out, "C05 panic surfaces as JoinError", format!("actor {a}: panic in hook = {panicked}, join result = {}", js.variant));
            continue;
        }
        if panicked {
            let p = &tr[ax.panics[0]];
            if let EvK::Panic { msg, .. } = &p.k {
                if js.panic_msg.as_deref() != Some(msg.as_str()) {
                    v(&mut out, "C05 panic payload", format!("actor {a}: payload {:?} vs injected {msg:?}", js.panic_msg));
                }
            }
            continue;
        }
        if js.variant == "Cancelled" {
            v(&mut out, "C05 unexpected cancel", format!("actor {a}"));
            continue;
        }
        // expected result from the hook trace
        let start = ax.on_start_exit.as_ref().map(|x| x.1.clone()).unwrap_or_default();
        let stop = ax.on_stop_exit.as_ref().map(|x| x.1.clone());
        // killed=true exactly when a kill signal ended the actor: decided from the kill() calls in the trace,
        // not from what on_stop was told
        let stop_k = ax.on_stop_called.first().map(|(s, _)| ix.kills_of(a).any(|o| o.start < *s && matches!(o.res, Some(Res::Ok))));
        let told_k = ax.on_stop_called.first().map(|x| x.1);
        let parse_err = |s: &str| s.strip_prefix("Err(").and_then(|x| x.strip_suffix(')')).and_then(|x| x.parse::<u32>().ok());
        let want: (String, Option<String>, Option<bool>, Option<u32>, bool) = if let Some(t) = parse_err(&start) {
            ("Failed".into(), Some("OnStart".into()), Some(false), Some(t), false)
        } else if let Some((_, t)) = ax.run_err() {
            let ph = match stop.as_deref().and_then(parse_err) {
                Some(_) => "OnRunThenOnStop",
                None => "OnRun",
            };
            ("Failed".into(), Some(ph.into()), Some(false), Some(t), true)
        } else if let Some(t) = stop.as_deref().and_then(parse_err) {
            ("Failed".into(), Some("OnStop".into()), stop_k, Some(t), true)
        } else {
            ("Completed".into(), None, stop_k, None, true)
        };
        let got = (js.variant.clone(), js.phase.clone(), js.killed, js.error, js.has_actor);
        let skip_killed = scn.has_tag("selfkill_in_on_run");
        let same = got.0 == want.0 && got.1 == want.1 && (skip_killed || got.2 == want.2) && got.3 == want.3 && got.4 == want.4;
        if !same {
            v(&mut out, "C05 result truthful", format!("actor {a}: JoinHandle gave {got:?}, the hooks did {want:?}"));
        }
        // the actor instance carries the state left by every hook that ran
        if js.has_actor {
            let mut log: Vec<String> = Vec::new();
            for (i, h, m) in &ax.calls {
                let _ = i;
                match h {
                    Hook::OnStart => log.push("on_start".into()),
                    Hook::Handler => log.push(format!("h{}", m.unwrap_or(0))),
                    Hook::OnRun => {
                        let inv = ax.runs.iter().find(|r| r.called == *i).map(|r| r.inv).unwrap_or(0);
                        log.push(format!("run{inv}"))
                    }
                    Hook::OnStop => log.push(format!("on_stop:{}", told_k.unwrap_or(false))),
                    Hook::Task => {}
                }
            }
            if log != js.actor_log {
                v(&mut out, "C05 actor state", format!("actor {a}: returned instance logged {:?}, trace says {:?}", js.actor_log, log));
            }
        }
        let _ = spec;
    }
    out
}

// ------------------------------------------------------------------ C06

pub fn c06(scn: &Scenario, tr: &[Ev]) -> Vec<Violation> {
    let ix = Ix::new(scn, tr);
    let mut out = Vec::new();
    for o in ix.ops.iter().filter(|o| o.k == OpK::Kill) {
        // never blocks, never fails
        match (&o.res, o.end) {
            (Some(Res::Ok), Some(e)) => {
                let clean = tr[o.start + 1..e].iter().all(|x| matches!(x.k, EvK::Log { .. }));
                if !clean {
                    v(&mut out, "C06 kill never blocks", format!("kill op {} did not return in the step it started in", o.op));
                }
            }
            (Some(Res::NoHandle), _) => {}
            other => v(&mut out, "C06 kill never fails", format!("kill op {} -> {other:?}", o.op)),
        }
    }
    for (a, ax) in ix.actors.iter().enumerate() {
        let Some(k) = ix.kills_of(a).filter(|o| matches!(o.res, Some(Res::Ok))).map(|o| o.start).min() else { continue };
        if ax.spawned.is_none() {
            continue;
        }
        // had the actor already begun stopping (or ended) when kill was issued?
        if ax.end_begins().map(|e| e < k).unwrap_or(false) {
            continue;
        }
        premise();
        let later_handlers: Vec<usize> = ax.calls.iter().filter(|(i, h, _)| *h == Hook::Handler && *i > k).map(|x| x.0).collect();
        if later_handlers.len() > 1 {
            v(&mut out, "C06 at most one further handler", format!("actor {a}: {} handlers started after kill() returned (pos {k})", later_handlers.len()));
        }
        // no on_run progress after the kill
        for r in &ax.runs {
            if r.called > k {
                v(&mut out, "C06 on_run after kill", format!("actor {a}: on_run invoked at {} after kill() (pos {k})", r.called));
            }
            // an on_run invocation that was already in progress when kill() returned may finish (the statement only asks
            // for on_stop "as soon as the hook in progress finishes"); that its body must not progress is C08's clause
        }
        if ax.crashed() || ax.start_failed() || ax.run_err().is_some() {
            continue;
        }
        // as soon as the hook in progress finishes: the next hook is on_stop(true), or one handler then on_stop(true)
        let stuck = ix.hook_stuck(a);
        match ax.on_stop_called.first() {
            Some((_, true)) => {}
            Some((s, false)) => v(&mut out, "C06 on_stop(killed=true)", format!("actor {a}: kill() at {k} preceded on_stop at {s}, which received killed=false")),
            None => {
                if !stuck && ax.started_ok() {
                    v(&mut out, "C06 killed actor stops", format!("actor {a}: kill() returned at {k} but on_stop never ran and no hook is in progress"));
                }
            }
        }
        if let Some((_, js)) = &ax.joined {
            if js.killed != Some(true) && js.variant != "Panic" {
                v(&mut out, "C06 reports killed", format!("actor {a}: result {:?} killed={:?}", js.variant, js.killed));
            }
            // leftovers are never handled and their asks fail
            for o in ix.sends_to(a) {
                if o.end.is_none() {
                    v(&mut out, "C06 pending sends fail", format!("op {} to killed actor {a} still pending", o.op));
                }
            }
        }
    }
    out
}

// ------------------------------------------------------------------ C07

pub fn c07(scn: &Scenario, tr: &[Ev]) -> Vec<Violation> {
    let ix = Ix::new(scn, tr);
    let mut out = Vec::new();
    let held = held_strong(&ix, tr.len());
    // carried handles still inside unhandled messages count as strong references
    let mut carried = vec![0usize; ix.actors.len()];
    for o in ix.ops.iter() {
        if let (Some(_k), Some(m), Some(dst)) = (o.send_kind(), o.msg, o.target) {
            if let Some(spec) = ix.msg_spec(m) {
                if let Some((from, _)) = spec.carry {
                    // which actor does the carried handle refer to? recorded by the Slot event that emptied it
                    let tgt = carried_target(&ix, o, from);
                    let dax = &ix.actors[dst];
                    let consumed = dax.handler_exit.contains_key(&m) || dax.joined.is_some() || !matches!(o.res, None | Some(Res::Ok) | Some(Res::Rep { .. }));
                    if let (Some(t), false) = (tgt, consumed) {
                        carried[t] += 1;
                    }
                }
            }
        }
    }
    for (a, ax) in ix.actors.iter().enumerate() {
        if !ax.started_ok() || ax.crashed() || ax.run_err().is_some() || ix.first_kill(a).is_some() {
            continue;
        }
        let stopped = ix.stops_of(a).any(|o| matches!(o.res, Some(Res::Ok)));
        let stop_pending = ix.stops_of(a).any(|o| o.end.is_none());
        let strong = held[a] + carried[a];
        let stuck = ix.hook_stuck(a);
        let pending_sends = ix.sends_to(a).any(|o| o.end.is_none());
        if stopped || (strong == 0 && !pending_sends && !stop_pending) {
            if stuck {
                continue;
            }
            premise();
            // must have finished: on_stop(false), joined
            match ax.on_stop_called.first() {
                Some((_, false)) => {}
                Some((_, true)) => v(&mut out, "C07 graceful end", format!("actor {a}: on_stop(killed=true) without kill")),
                None => v(&mut out, "C07 ends when stopped or unreferenced", format!("actor {a}: stopped={stopped} strong={strong} but on_stop never ran")),
            }
            if let Some((_, true)) = ax.on_stop_called.iter().skip(1).find(|(_, k)| *k) {
                v(&mut out, "C07 graceful end", format!("actor {a}: on_stop(killed=true) ran although nobody killed the actor"));
            }
            if let (Some(_), Some(j)) = (ax.on_stop_called.first(), ax.joined.as_ref()) {
                if j.1.killed == Some(true) {
                    v(&mut out, "C07 graceful end", format!("actor {a}: ended as killed although nobody killed it"));
                }
            }
            if ax.joined.is_none() && !(ax.on_stop_exit.is_none()) {
                v(&mut out, "C07 join handle resolves", format!("actor {a}: on_stop finished but the JoinHandle did not resolve"));
            }
            // finishes the work accepted before that point
            let first_stop = ix.first_stop(a);
            for o in ix.sends_to(a) {
                let (Some(m), Some(acc)) = (o.msg, accepted_at(&ix, o)) else { continue };
                if first_stop.map(|s| acc > s).unwrap_or(false) {
                    continue;
                }
                if !ax.handler_called.contains_key(&m) && ax.on_stop_called.first().is_some() {
                    v(&mut out, "C07 finishes accepted work", format!("actor {a}: message {m} accepted before the stop/last drop was not handled"));
                }
            }
        } else if strong > 0 && !stopped && !stop_pending {
            premise();
            if !ax.on_stop_called.is_empty() || ax.joined.is_some() {
                v(&mut out, "C07 never ends on its own", format!("actor {a}: {strong} strong reference(s) exist, no stop/kill/error, yet the actor ended"));
            }
            // the probe through a remaining handle must be answered
            for e in tr {
                if let EvK::Probe { actor, res } = &e.k {
                    if *actor == a && !stuck {
                        match res {
                            Res::Rep { .. } | Res::Bool(true) | Res::Ok => {}
                            other => v(&mut out, "C07 keeps serving", format!("actor {a}: probe through a remaining strong handle -> {other:?}")),
                        }
                    }
                }
            }
        }
    }
    out
}

fn carried_target(ix: &Ix, o: &OpRec, from: u8) -> Option<usize> {
    // look backwards from the op start for the last non-empty Slot record of (holder, from)
    let holder = match o.owner {
        Some(ow) if ow < ix.nc => Holder::Client(ow),
        Some(ow) => ix.owner_actor(ow).map(Holder::Actor)?,
        None => return None,
    };
    let mut tgt = None;
    for e in &ix.tr[..o.start] {
        if let EvK::Slot { holder: h, slot, kind, target } = &e.k {
            if *h == holder && *slot == from {
                tgt = if matches!(kind.as_str(), "strong" | "tell" | "ask" | "ctl") { *target } else { None };
            }
        }
    }
    tgt
}

// ------------------------------------------------------------------ C08

pub fn c08(scn: &Scenario, tr: &[Ev]) -> Vec<Violation> {
    let ix = Ix::new(scn, tr);
    let mut out = Vec::new();
    let roomy = scn.has_tag("roomy");
    for (a, ax) in ix.actors.iter().enumerate() {
        let kill = ix.first_kill(a);
        for r in &ax.runs {
            let mut pts = r.marks.clone();
            pts.push(r.called);
            for p in pts {
                premise();
                {
                    // occupancy: accepted (sends + stop markers) minus taken
                    let acc = ix
                        .ops
                        .iter()
                        .filter(|o| o.target == Some(a) && o.start < p)
                        .filter(|o| match o.k {
                            OpK::Send(_) => accepted_at(&ix, o).map(|x| x < p).unwrap_or(false),
                            OpK::Stop => {
                                if roomy {
                                    true
                                } else {
                                    matches!(o.res, Some(Res::Ok)) && o.end.map(|e| e < p).unwrap_or(false)
                                }
                            }
                            _ => false,
                        })
                        .count();
                    let taken = ax.calls.iter().filter(|(i, h, _)| *h == Hook::Handler && *i < p).count()
                        + ax.on_stop_called.iter().filter(|(i, _)| *i < p).count();
                    if acc > taken {
                        v(&mut out, "C08 messages first", format!("actor {a}: on_run made progress at {p} with {} message(s) waiting", acc - taken));
                    }
                }
                if let Some(k) = kill {
                    if k < p && ax.end_begins().map(|e| e > k).unwrap_or(true) {
                        v(&mut out, "C08 no progress with kill pending", format!("actor {a}: on_run made progress at {p} after kill() at {k}"));
                    }
                }
            }
        }
        // Ok(false) disables for good
        let mut disabled_at: Option<usize> = None;
        for r in &ax.runs {
            if let Some(d) = disabled_at {
                v(&mut out, "C08 Ok(false) disables on_run", format!("actor {a}: on_run invoked at {} after it returned Ok(false) at {d}", r.called));
            }
            if let Some((i, o)) = &r.exit {
                if o == "OkFalse" {
                    disabled_at = Some(*i);
                }
            }
        }
        // Ok(true) (or a cancelled invocation) means: run again when next idle
        if let Some(last) = ax.runs.last() {
            let wants_again = match (&last.exit, last.cancelled) {
                (Some((_, o)), _) => o == "OkTrue" || o == "Ok",
                (None, Some(_)) => true,
                _ => false,
            };
            let ended = ax.end_begins().is_some();
            let idle = !ix.hook_stuck(a);
            if wants_again && !ended && idle {
                v(&mut out, "C08 Ok(true) runs again", format!("actor {a}: last on_run ended with {:?}/cancelled={:?} but no new invocation although the actor is idle", last.exit, last.cancelled));
            }
        }
        // Err: on_stop(false) next, failed result
        if let Some((i, t)) = ax.run_err() {
            let next = ax.calls.iter().find(|(c, _, _)| *c > i);
            match next {
                Some((_, Hook::OnStop, _)) => {
                    if ax.on_stop_called.first().map(|x| x.1) != Some(false) {
                        v(&mut out, "C08 on_run Err -> on_stop(false)", format!("actor {a}"));
                    }
                }
                other => v(&mut out, "C08 on_run Err -> on_stop", format!("actor {a}: after on_run Err the next hook is {other:?}")),
            }
            if let Some((_, js)) = &ax.joined {
                let ok = js.variant == "Failed" && matches!(js.phase.as_deref(), Some("OnRun") | Some("OnRunThenOnStop")) && js.error == Some(t);
                if !ok && js.variant != "Panic" {
                    v(&mut out, "C08 on_run Err -> failed", format!("actor {a}: {:?} {:?} {:?}", js.variant, js.phase, js.error));
                }
            }
        }
    }
    out
}

// ------------------------------------------------------------------ C09

pub fn c09(scn: &Scenario, tr: &[Ev]) -> Vec<Violation> {
    let ix = Ix::new(scn, tr);
    let mut out = Vec::new();
    // nothing in these scenarios is scripted to panic: a panic (other than the refusal of capacity 0) means a send
    // failed where it should have waited
    for e in tr {
        if let EvK::Panic { msg, .. } = &e.k {
            if !msg.starts_with("injected") && !msg.contains("Mailbox capacity must be greater than 0") {
                v(&mut out, "C09 a full mailbox makes the sender wait", format!("panic: {}", msg.lines().next().unwrap_or("")));
            }
        }
    }
    for (a, ax) in ix.actors.iter().enumerate() {
        let spec = &scn.actors[a];
        if spec.cap == Some(0) {
            if ax.spawn_panic.is_none() {
                v(&mut out, "C09 capacity 0 rejected", format!("actor {a} spawned with capacity 0"));
            }
            continue;
        }
        let Some(cap_rep) = ax.cap_reported else { continue };
        let cap = spec.cap.unwrap_or(32) as i32;
        if cap_rep != cap {
            v(&mut out, "C09 capacity as requested", format!("actor {a}: requested {cap}, channel reports {cap_rep}"));
        }
        if !scn.has_tag("occ") {
            continue;
        }
        // occupancy from harness-side facts: completed tell/stop sends minus messages taken
        let mut acc_pos: Vec<usize> = Vec::new();
        for o in ix.ops.iter().filter(|o| o.target == Some(a)) {
            match o.k {
                OpK::Send(k) if is_tell(k) => {
                    if matches!(o.res, Some(Res::Ok)) {
                        acc_pos.push(o.end.unwrap());
                    }
                }
                OpK::Stop => {
                    if matches!(o.res, Some(Res::Ok)) && ax.end_begins().map(|e| e > o.start).unwrap_or(true) {
                        acc_pos.push(o.end.unwrap());
                    }
                }
                _ => {}
            }
        }
        let mut taken_pos: Vec<usize> = ax.calls.iter().filter(|(_, h, _)| *h == Hook::Handler).map(|x| x.0).collect();
        // the stop marker is taken when on_stop is called because of it (no kill in these scenarios)
        if let Some((s, _)) = ax.on_stop_called.first() {
            taken_pos.push(*s);
        }
        let ended = ax.end_begins();
        for (p, e) in tr.iter().enumerate() {
            if ended.map(|x| p >= x).unwrap_or(false) {
                break;
            }
            let occ = acc_pos.iter().filter(|x| **x <= p).count() as i32 - taken_pos.iter().filter(|x| **x <= p).count() as i32;
            if occ > cap {
                v(&mut out, "C09 hard bound", format!("actor {a}: {occ} accepted-but-untaken messages at {p}, capacity {cap}"));
                break;
            }
            if let EvK::Quiet { status, .. } = &e.k {
                premise();
                // senders still blocked vs. free slots
                let st: Vec<char> = status.chars().collect();
                let mut blocked = 0;
                let mut woken = 0;
                for o in ix.ops.iter().filter(|o| o.target == Some(a) && o.start < p && o.end.map(|x| x > p).unwrap_or(true)) {
                    if !matches!(o.k, OpK::Send(_) | OpK::Stop) {
                        continue;
                    }
                    match o.owner.and_then(|ow| st.get(ow)) {
                        Some('B') => blocked += 1,
                        Some('R') => woken += 1,
                        _ => {}
                    }
                }
                if blocked > 0 && cap - occ - woken > 0 {
                    v(&mut out, "C09 never waits with a free slot", format!("actor {a}: at {p} {blocked} sender(s) blocked, occupancy {occ}, woken {woken}, capacity {cap}"));
                    break;
                }
            }
        }
        // a tell to a live actor never fails
        for o in ix.sends_to(a) {
            if let (Some(SendKind::Tell), Some(Res::Err { .. }), Some(e)) = (o.send_kind(), &o.res, o.end) {
                if ended.map(|x| e < x).unwrap_or(true) {
                    v(&mut out, "C09 waits rather than fails", format!("tell op {} to live actor {a} failed: {:?}", o.op, o.res));
                }
            }
        }
    }
    out
}

// ------------------------------------------------------------------ C10

pub fn c10(scn: &Scenario, tr: &[Ev]) -> Vec<Violation> {
    let ix = Ix::new(scn, tr);
    let mut out = Vec::new();
    for o in ix.ops.iter() {
        if let Some(Res::Err { k, retryable, .. }) = &o.res {
            if *retryable != (*k == ErrK::Timeout) {
                v(&mut out, "C10 only Timeout is retryable", format!("op {}: {k:?} retryable={retryable}", o.op));
            }
        }
        let Some(k) = o.send_kind() else { continue };
        let Some(t) = k.timeout() else { continue };
        let (Some(a), Some(m)) = (o.target, o.msg) else { continue };
        let ax = &ix.actors[a];
        // (the virtual clock moves in whole milliseconds: a deadline that is not one is reached at the next one)
        let deadline = o.t0 + crate::model::timeout_ms_ceil(t);
        premise();
        let Some(t1) = o.t1 else {
            v(&mut out, "C10 returns by its deadline", format!("op {} (timeout {t} at t={}) never returned", o.op, o.t0));
            continue;
        };
        // (in "stall" scenarios the executor itself is kept busy past deadlines: when a call returns is then not in
        // the library's hands, what it returns still is)
        let stall = scn.has_tag("stall");
        if t1 > deadline && !stall {
            v(&mut out, "C10 returns by its deadline", format!("op {} returned at t={t1}, deadline {deadline}", o.op));
        }
        // natural completion instant
        let natural: Option<u64> = if is_tell(k) {
            None
        } else {
            ax.handler_exit.get(&m).filter(|(i, s)| o.end.map(|e| *i < e).unwrap_or(true) && !s.starts_with("Panic")).map(|(i, _)| tr[*i].t)
        };
        match &o.res {
            Some(Res::Err { k: ErrK::Timeout, .. }) => {
                if t1 != deadline && !(stall && t1 > deadline) {
                    v(&mut out, "C10 Timeout exactly at the deadline", format!("op {}: Timeout at t={t1}, deadline {deadline}", o.op));
                }
                if let Some(n) = natural {
                    if n < deadline {
                        v(&mut out, "C10 Timeout only if the deadline passed first", format!("op {}: reply was produced at t={n} < deadline {deadline} but Timeout returned", o.op));
                    }
                }
                if is_tell(k) && scn.has_tag("roomy") {
                    v(&mut out, "C10 Timeout only if the deadline passed first", format!("op {}: tell timed out although a slot was free", o.op));
                }
            }
            Some(Res::Err { k: other, .. }) => {
                // other failures: as themselves, when they occur
                let term_t = ax.end_begins().map(|i| tr[i].t);
                let cause_t = match other {
                    ErrK::Receive => ax
                        .handler_exit
                        .get(&m)
                        .map(|(i, _)| tr[*i].t)
                        .or_else(|| ax.joined.as_ref().map(|(i, _)| tr[*i].t)),
                    _ => term_t,
                };
                let want = cause_t.map(|c| c.max(o.t0));
                if let Some(w) = want {
                    if t1 > w {
                        v(&mut out, "C10 other failures reported when they occur", format!("op {}: {other:?} returned at t={t1}, the failure existed at t={w}", o.op));
                    }
                }
            }
            Some(_) => {
                // Ok: the statement only asks that it returns by the deadline (checked above)
                let _ = natural;
            }
            None => {}
        }
    }
    out
}

// ------------------------------------------------------------------ C11

pub fn c11(scn: &Scenario, tr: &[Ev]) -> Vec<Violation> {
    let ix = Ix::new(scn, tr);
    let mut out = Vec::new();
    // ids pairwise distinct
    let mut raws: Vec<(u64, usize)> = ix.actors.iter().enumerate().filter_map(|(a, x)| x.raw.map(|r| (r, a))).collect();
    raws.sort();
    for w in raws.windows(2) {
        if w[0].0 == w[1].0 {
            v(&mut out, "C11 ids unique", format!("actors {} and {} share id {}", w[0].1, w[1].1, w[0].0));
        }
    }
    // slot model: expected target of every handle
    let mut model: std::collections::BTreeMap<(Holder, u8), Option<usize>> = Default::default();
    let mut type_names: std::collections::BTreeSet<String> = Default::default();
    for (p, e) in tr.iter().enumerate() {
        match &e.k {
            EvK::Slot { holder, slot, kind, target } => {
                if kind != "none" && target.is_none() {
                    v(&mut out, "C11 identity stable", format!("a derived handle ({kind}) in {holder:?} slot {slot} reports an identity that belongs to no spawned actor (pos {p})"));
                }
                model.insert((*holder, *slot), *target);
            }
            EvK::OpEnd { op, res: Res::Ident { actor, type_name, .. } } => {
                type_names.insert(type_name.clone());
                let o = ix.ops.iter().find(|o| o.op == *op).unwrap();
                let holder = match o.owner {
                    Some(ow) if ow < ix.nc => Some(Holder::Client(ow)),
                    Some(ow) => ix.owner_actor(ow).map(Holder::Actor),
                    None => None,
                };
                if o.slot < SELF_SLOT {
                    if let Some(h) = holder {
                        if let Some(want) = model.get(&(h, o.slot)) {
                            if actor != want {
                                v(&mut out, "C11 identity stable", format!("identity() of {h:?} slot {} -> actor {actor:?}, derived from actor {want:?}", o.slot));
                            }
                        }
                    }
                }
                if actor.is_none() {
                    v(&mut out, "C11 identity stable", format!("identity() (op {op}) names no spawned actor"));
                }
            }
            _ => {}
        }
    }
    if type_names.len() > 1 {
        v(&mut out, "C11 identity stable", format!("type names differ: {type_names:?}"));
    }
    for o in ix.ops.iter() {
        let Some(a) = o.target else { continue };
        let ax = &ix.actors[a];
        let strongish = matches!(o.route.as_str(), "strong" | "tell" | "ask" | "ctl" | "self" | "reg");
        match (&o.k, &o.res) {
            (OpK::IsAlive, Some(Res::Bool(b))) if strongish => {
                premise();
                let ending = ax.end_begins();
                if ending.map(|e| o.start < e).unwrap_or(true) && !*b {
                    v(&mut out, "C11 is_alive true while running", format!("is_alive() (op {}) on actor {a} returned false before the actor began to end", o.op));
                }
                if let Some((j, _)) = &ax.joined {
                    if o.start > *j && *b {
                        v(&mut out, "C11 is_alive false after end", format!("is_alive() (op {}) on actor {a} returned true after its JoinHandle resolved", o.op));
                    }
                }
            }
            (OpK::Send(_), res) => {
                if let Some((j, _)) = &ax.joined {
                    if o.start > *j && !matches!(res, Some(Res::Err { .. }) | Some(Res::NoHandle)) {
                        v(&mut out, "C11 sends fail after end", format!("op {} to ended actor {a} -> {res:?}", o.op));
                    }
                }
            }
            (OpK::Stop | OpK::Kill, res) => {
                if let Some((j, _)) = &ax.joined {
                    if o.start > *j && !matches!(res, Some(Res::Ok) | Some(Res::NoHandle)) {
                        v(&mut out, "C11 stop/kill Ok after end", format!("op {} on ended actor {a} -> {res:?}", o.op));
                    }
                }
            }
            (OpK::Upgrade, Some(Res::Upgraded(got))) => {
                premise();
                // strong(A) bounds at this position
                let held = held_strong(&ix, o.start)[a];
                let own_ref = ax.on_start_exit.as_ref().map(|x| x.0 > o.start).unwrap_or(true) && ax.spawned.is_some() && !ax.crashed();
                // messages possibly in the mailbox or being handled (each carries a reference)
                let mut maybe = 0;
                let mut surely = 0;
                let ended = ax.joined.as_ref().map(|x| x.0 < o.start).unwrap_or(false) || ax.end_exit_before(o.start);
                for s in ix.ops.iter().filter(|s| s.target == Some(a) && matches!(s.k, OpK::Send(_) | OpK::Stop) && s.start < o.start) {
                    let m = s.msg.unwrap_or(0);
                    let done = match s.k {
                        OpK::Stop => ax.on_stop_called.first().map(|x| x.0 < o.start).unwrap_or(false) || matches!((&s.res, s.end), (Some(_), Some(e)) if e < o.start && ended),
                        _ => ax.handler_exit.get(&m).map(|x| x.0 < o.start).unwrap_or(false),
                    };
                    let rejected = matches!(&s.res, Some(Res::Err { k: ErrK::Send, .. })) && s.end.map(|e| e < o.start).unwrap_or(false);
                    if done || rejected || ended {
                        continue;
                    }
                    maybe += 1;
                    if accepted_at(&ix, s).map(|p| p < o.start).unwrap_or(false) && !matches!(&s.res, Some(Res::Err { .. })) {
                        surely += 1;
                    }
                    // a stop request that was accepted and has not been taken out of the mailbox yet is a queued
                    // message like any other
                    if s.k == OpK::Stop && matches!(s.res, Some(Res::Ok)) && s.end.map(|e| e < o.start).unwrap_or(false) {
                        surely += 1;
                    }
                }
                let min = held + if own_ref { 1 } else { 0 } + surely;
                let max = held + if own_ref { 1 } else { 0 } + maybe + ax.crashed() as usize * 0;
                if min > 0 && !*got {
                    v(&mut out, "C11 upgrade while referenced", format!("upgrade (op {}) of actor {a} returned None although {min} strong reference(s) exist", o.op));
                }
                if max == 0 && *got && !scn.has_tag("metrics_build") {
                    v(&mut out, "C11 upgrade only while referenced", format!("upgrade (op {}) of actor {a} returned Some although no strong reference or queued message exists", o.op));
                }
            }
            _ => {}
        }
    }
    out
}

impl ActorIx {
    /// the actor's task has released its receivers before `at` (conservative: on_stop exited or panic or failed start)
    pub fn end_exit_before(&self, at: usize) -> bool {
        self.on_stop_exit.as_ref().map(|x| x.0 < at).unwrap_or(false)
            || self.panics.first().map(|p| *p < at).unwrap_or(false)
            || self.on_start_exit.as_ref().map(|(i, o)| *i < at && o != "Ok").unwrap_or(false)
    }
}

// ------------------------------------------------------------------ C13

pub fn c13(scn: &Scenario, tr: &[Ev]) -> Vec<Violation> {
    let ix = Ix::new(scn, tr);
    let mut out = Vec::new();
    // a delivery that fails is an Err for its caller - never a panic in the caller's task
    for e in tr {
        if let EvK::Panic { msg, loc } = &e.k {
            if !msg.starts_with("injected") && !msg.starts_with("Deadlock detected") && loc.contains("dead_letter") {
                v(&mut out, "C13 a failed delivery is recorded, not panicked over", format!("panic at {loc}: {}", msg.lines().next().unwrap_or("")));
            }
        }
    }
    let mut failures = 0u64;
    let mut attributed: std::collections::BTreeSet<usize> = Default::default();
    for o in ix.ops.iter() {
        let Some(k) = o.send_kind() else { continue };
        let Some(a) = o.target else { continue };
        let end = o.end.unwrap_or(tr.len());
        let dls: Vec<(usize, &Ev)> = tr[o.start..end].iter().enumerate().map(|(i, e)| (i + o.start, e)).filter(|(_, e)| e.owner == o.owner && matches!(e.k, EvK::Dl { .. })).collect();
        for (i, _) in &dls {
            attributed.insert(*i);
        }
        let want_reason: Option<&str> = match &o.res {
            Some(Res::Err { k: ErrK::Send, .. }) => Some("actor stopped"),
            Some(Res::Err { k: ErrK::Timeout, .. }) => Some("timeout"),
            Some(Res::Err { k: ErrK::Receive, .. }) => Some("reply dropped"),
            _ => None,
        };
        if o.res.is_none() {
            if !dls.is_empty() {
                v(&mut out, "C13 no dead letter without failure", format!("op {} is still pending but recorded {} dead letter(s)", o.op, dls.len()));
            }
            continue;
        }
        match want_reason {
            None => {
                if !dls.is_empty() {
                    v(&mut out, "C13 none per success", format!("op {} -> {:?} recorded {} dead letter(s)", o.op, o.res, dls.len()));
                }
            }
            Some(reason) => {
                premise();
                failures += 1;
                if dls.len() != 1 {
                    v(&mut out, "C13 exactly one per failure", format!("op {} -> {:?} recorded {} dead letters", o.op, o.res, dls.len()));
                }
                for (_, e) in &dls {
                    if let EvK::Dl { raw_id, actor_type, msg_type, reason: r, op } = &e.k {
                        let want_type = match ix.msg_spec(o.msg.unwrap_or(0)).map(|s| s.kind) {
                            Some(MsgKind::M2) => "rsv::world::MsgS",
                            Some(MsgKind::MJ) => "rsv::world::MsgJ",
                            Some(MsgKind::MR) => "rsv::world::MsgR",
                            _ => "rsv::world::Msg",
                        };
                        let fam = if k.is_ask() { "ask" } else { "tell" };
                        if r != reason {
                            v(&mut out, "C13 reason matches error", format!("op {} -> {:?}, dead letter reason {r:?}", o.op, o.res));
                        }
                        if *raw_id != 1_000_000 + a as u64 || actor_type != "rsv::world::SA" {
                            v(&mut out, "C13 names the target", format!("op {} to actor {a}: dead letter names id {raw_id} type {actor_type}", o.op));
                        }
                        if msg_type != want_type {
                            v(&mut out, "C13 names the message type", format!("op {}: {msg_type} vs {want_type}", o.op));
                        }
                        if !op.contains(fam) {
                            v(&mut out, "C13 names the operation", format!("op {} ({fam} family): label {op:?}", o.op));
                        }
                    }
                }
            }
        }
    }
    for (i, e) in tr.iter().enumerate() {
        if matches!(e.k, EvK::Dl { .. }) && !attributed.contains(&i) {
            v(&mut out, "C13 no stray dead letters", format!("dead letter at {i} belongs to no failing operation: {:?}", e.k));
        }
        if let EvK::DlCount { delta } = &e.k {
            if *delta != failures {
                v(&mut out, "C13 counter equals failures", format!("dead_letter_count() = {delta}, failed deliveries = {failures}"));
            }
        }
    }
    out
}

// ------------------------------------------------------------------ C14 / C15: deadlock detection

/// In-flight asks issued from actor hooks: (op index in ix.ops, asker actor, asked actor)
fn actor_asks(ix: &Ix) -> Vec<(usize, usize, usize)> {
    let mut v = Vec::new();
    for (k, o) in ix.ops.iter().enumerate() {
        if let (Some(sk), Some(ow), Some(t)) = (o.send_kind(), o.owner, o.target) {
            if sk.is_ask() {
                if let Some(a) = ix.owner_actor(ow) {
                    v.push((k, a, t));
                }
            }
        }
    }
    v
}

/// position at which the ask `o` stopped being an unanswered in-flight ask (exclusive upper end)
fn ask_live_until(ix: &Ix, o: &OpRec, asker: usize) -> usize {
    let n = ix.tr.len();
    let mut until = o.end.unwrap_or(n);
    let t = o.target.unwrap();
    let tx = &ix.actors[t];
    // the reply has been sent once the handler of this very message has exited
    if let Some(m) = o.msg {
        if let Some((x, _)) = tx.handler_exit.get(&m) {
            until = until.min(*x);
        }
    }
    // the envelope is destroyed when the callee ends
    if let Some(e) = tx.end_exit_index() {
        if e > o.start {
            until = until.min(e);
        }
    }
    // the asking future is dropped when the asker unwinds or its on_run is cancelled
    let ax = &ix.actors[asker];
    for p in &ax.panics {
        if *p > o.start {
            until = until.min(*p);
        }
    }
    for r in &ax.runs {
        if let Some(c) = r.cancelled {
            if r.called < o.start && c > o.start {
                until = until.min(c);
            }
        }
    }
    until
}

impl ActorIx {
    pub fn end_exit_index(&self) -> Option<usize> {
        let mut c: Vec<usize> = Vec::new();
        if let Some((i, _)) = &self.on_stop_exit {
            c.push(*i);
        }
        if let Some(i) = self.panics.first() {
            c.push(*i);
        }
        if let Some((i, o)) = &self.on_start_exit {
            if o != "Ok" {
                c.push(*i);
            }
        }
        c.into_iter().min()
    }
}

/// unanswered edges (asker -> asked) at trace position `at`, not counting op `skip`
fn unanswered_at(ix: &Ix, asks: &[(usize, usize, usize)], at: usize, skip: usize) -> Vec<(usize, usize)> {
    let mut e = Vec::new();
    for (k, a, t) in asks {
        if *k == skip {
            continue;
        }
        let o = &ix.ops[*k];
        if o.start < at && ask_live_until(ix, o, *a) > at && !deadlock_panicked(ix, o) {
            e.push((*a, *t));
        }
    }
    e
}

/// the ask `o` itself was refused by the detector (panic right at its start)
fn deadlock_panicked(ix: &Ix, o: &OpRec) -> bool {
    for e in &ix.tr[o.start + 1..] {
        if e.owner != o.owner {
            continue;
        }
        return matches!(&e.k, EvK::Panic { msg, .. } if msg.starts_with("Deadlock detected"));
    }
    false
}

fn path(edges: &[(usize, usize)], from: usize, to: usize) -> Option<Vec<usize>> {
    let mut cur = from;
    let mut seen = vec![from];
    for _ in 0..=edges.len() {
        let nxt = edges.iter().find(|(a, _)| *a == cur).map(|x| x.1)?;
        seen.push(nxt);
        if nxt == to {
            return Some(seen);
        }
        cur = nxt;
    }
    None
}

pub fn c14(scn: &Scenario, tr: &[Ev]) -> Vec<Violation> {
    let ix = Ix::new(scn, tr);
    let mut out = Vec::new();
    let asks = actor_asks(&ix);
    for (k, x, y) in &asks {
        let o = &ix.ops[*k];
        // an ask to an actor that has already ended just fails; no wait, no cycle
        let callee_gone = ix.actors[*y].end_exit_index().map(|e| e < o.start).unwrap_or(false);
        let edges = unanswered_at(&ix, &asks, o.start, *k);
        let cyc: Option<Vec<usize>> = if x == y { Some(vec![*x, *x]) } else { path(&edges, *y, *x).map(|mut p| { p.insert(0, *x); p }) };
        if let Some(cycle) = cyc {
            if callee_gone {
                continue;
            }
            premise();
            // this ask would close a cycle: it must panic instead of waiting
            let mut panicked = None;
            for e in &tr[o.start + 1..] {
                if e.owner != o.owner {
                    continue;
                }
                if let EvK::Panic { msg, .. } = &e.k {
                    panicked = Some(msg.clone());
                }
                break;
            }
            match panicked {
                Some(msg) if msg.starts_with("Deadlock detected") => {
                    for a in &cycle {
                        let name = format!("rsv::world::SA(#L{a})");
                        if !msg.contains(&name) {
                            v(&mut out, "C14 message names the cycle", format!("cycle {cycle:?}: panic message {msg:?} does not name actor {a}"));
                        }
                    }
                }
                other => v(&mut out, "C14 cycle-closing ask panics", format!("ask op {} from actor {x} to {y} closes the cycle {cycle:?} (unanswered edges {edges:?}) but did not panic: {other:?}", o.op)),
            }
        }
    }
    // no participant is left waiting forever
    for (k, x, y) in &asks {
        let o = &ix.ops[*k];
        if o.end.is_none() && !deadlock_panicked(&ix, o) {
            // still legitimately waiting only if the callee is parked in a script that never ends
            let alive_asker = ix.actors[*x].panics.is_empty();
            let cancelled = ask_live_until(&ix, o, *x) < tr.len();
            if alive_asker && !cancelled && !scn.has_tag("parked") {
                v(&mut out, "C14 nobody waits forever", format!("ask op {} from actor {x} to {y} is still waiting at terminal quiescence", o.op));
            }
        }
    }
    out
}

pub fn c15(scn: &Scenario, tr: &[Ev]) -> Vec<Violation> {
    let ix = Ix::new(scn, tr);
    let mut out = Vec::new();
    let asks = actor_asks(&ix);
    for (p, e) in tr.iter().enumerate() {
        match &e.k {
            EvK::Panic { msg, .. } if msg.starts_with("Deadlock detected") => {
                let Some(x) = e.owner.and_then(|o| ix.owner_actor(o)) else {
                    v(&mut out, "C15 non-actor callers are never tracked", format!("deadlock panic at {p} in a task that is not an actor hook"));
                    continue;
                };
                // the ask that panicked: the last OpStart of this owner before p
                let Some((k, _, y)) = asks.iter().filter(|(k, a, _)| *a == x && ix.ops[*k].start < p).last().copied() else {
                    v(&mut out, "C15 machinery", format!("no ask precedes the deadlock panic at {p}"));
                    continue;
                };
                let o = &ix.ops[k];
                premise();
                let edges = unanswered_at(&ix, &asks, o.start, k);
                let justified = x == y || path(&edges, y, x).is_some();
                if !justified {
                    v(&mut out, "C15 panic only on a real cycle", format!("actor {x} asking {y} (op {}) panicked with {msg:?} but the unanswered in-flight asks at that moment are {edges:?}: no chain from {y} back to {x}", o.op));
                }
            }
            EvK::Graph { edges } => {
                for (a, b) in edges {
                    premise();
                    if *a < 0 || *b < 0 {
                        v(&mut out, "C15 non-actor callers are never tracked", format!("graph at {p} has an edge with an id that is no actor: {edges:?}"));
                        continue;
                    }
                    // must be a not-yet-returned ask of its owner
                    let ok = asks.iter().any(|(k, x, y)| {
                        let o = &ix.ops[*k];
                        *x == *a as usize && *y == *b as usize && o.start < p && o.end.map(|e| e >= p.saturating_sub(0)).unwrap_or(true) && !deadlock_panicked(&ix, o) && owner_still_holds(&ix, o, *x, p)
                    });
                    if !ok {
                        v(&mut out, "C15 only in-flight asks are in the graph", format!("graph at {p} = {edges:?}: edge {a}->{b} is not a pending ask of actor {a}"));
                    }
                }
            }
            _ => {}
        }
    }
    // no residue
    let last_graph = tr.iter().rev().find_map(|e| if let EvK::Graph { edges } = &e.k { Some(edges.clone()) } else { None });
    if let Some(g) = last_graph {
        let pending = asks.iter().any(|(k, a, _)| ix.ops[*k].end.is_none() && !deadlock_panicked(&ix, &ix.ops[*k]) && ask_live_until(&ix, &ix.ops[*k], *a) >= tr.len());
        if !g.is_empty() && !pending {
            v(&mut out, "C15 no residue", format!("every ask has finished but the wait-for graph still holds {g:?}"));
        }
    }
    // clients never panic
    for (p, e) in tr.iter().enumerate() {
        if let EvK::Panic { msg, .. } = &e.k {
            if e.owner.map(|o| o < ix.nc).unwrap_or(false) {
                v(&mut out, "C15 non-actor callers are never tracked", format!("client task panicked at {p}: {msg}"));
            }
        }
    }
    out
}

/// the asking future of `o` still exists at position p (asker did not unwind, on_run not cancelled)
fn owner_still_holds(ix: &Ix, o: &OpRec, asker: usize, p: usize) -> bool {
    let ax = &ix.actors[asker];
    if ax.panics.iter().any(|q| *q > o.start && *q < p) {
        return false;
    }
    for r in &ax.runs {
        if let Some(c) = r.cancelled {
            if r.called < o.start && c > o.start && c < p {
                return false;
            }
        }
    }
    true
}

// ------------------------------------------------------------------ C20: metrics

pub fn c20(scn: &Scenario, tr: &[Ev]) -> Vec<Violation> {
    let ix = Ix::new(scn, tr);
    let mut out = Vec::new();
    for (a, ax) in ix.actors.iter().enumerate() {
        // handler entries / exits (a panic ends the handler too) as positions
        let entered: Vec<usize> = ax.calls.iter().filter(|(_, h, _)| *h == Hook::Handler).map(|x| x.0).collect();
        let mut finished: Vec<usize> = ax.handler_exit.values().map(|x| x.0).collect();
        finished.sort_unstable();
        let mut last_by_owner: std::collections::BTreeMap<usize, u64> = Default::default();
        let mut final_count: Option<u64> = None;
        let parked = ix.hook_stuck(a);
        for o in ix.ops.iter().filter(|o| o.k == OpK::Metrics && o.target == Some(a)) {
            let Some(Res::Metrics { count, avg_ns, max_ns, consistent }) = &o.res else { continue };
            premise();
            let p = o.start;
            let lo = finished.iter().filter(|x| **x < p).count() as u64;
            let hi = entered.iter().filter(|x| **x < p).count() as u64;
            // a handler that panicked is recorded while unwinding: its Exit event is written just before the panic
            if *count < lo || *count > hi {
                v(&mut out, "C20 message_count counts handled messages", format!("actor {a}: message_count={count} at {p}, handlers finished {lo}, entered {hi}"));
            }
            if let Some(ow) = o.owner {
                let prev = last_by_owner.insert(ow, *count).unwrap_or(0);
                if *count < prev {
                    v(&mut out, "C20 message_count never decreases", format!("actor {a}: reader {ow} saw {prev} then {count}"));
                }
            }
            if !consistent {
                v(&mut out, "C20 snapshot agrees with accessors", format!("actor {a}: op {}", o.op));
            }
            // once quiescent (actor ended, or idle with nothing in flight)
            let ended = ax.joined.as_ref().map(|x| x.0 < p).unwrap_or(false);
            if ended {
                if avg_ns > max_ns {
                    v(&mut out, "C20 avg <= max", format!("actor {a}: avg {avg_ns}ns > max {max_ns}ns"));
                }
                let busy_ns = longest_busy(&ix, a);
                if *max_ns < busy_ns {
                    v(&mut out, "C20 max covers the longest handler", format!("actor {a}: max_processing_time {max_ns}ns, a handler demonstrably took {busy_ns}ns"));
                }
                if *count != entered.len() as u64 && !parked {
                    v(&mut out, "C20 final message_count", format!("actor {a}: after the end message_count={count}, handlers entered={}", entered.len()));
                }
                if let Some(f) = final_count {
                    if f != *count {
                        v(&mut out, "C20 final values through any handle", format!("actor {a}: {f} vs {count}"));
                    }
                }
                final_count = Some(*count);
            }
        }
        // a weak handle that could not be upgraded although strong references exist is C11's business; here:
        // readable through a weak-upgraded handle means: if the upgrade succeeded the values are the same ones (checked above)
    }
    out
}

fn longest_busy(ix: &Ix, a: usize) -> u64 {
    let mut best = 0u64;
    for (m, _) in ix.actors[a].handler_exit.iter() {
        if let Some(spec) = ix.msg_spec(*m) {
            let ms: u64 = spec.steps.iter().map(|s| if let Step::Busy(d) = s { *d as u64 } else { 0 }).sum();
            best = best.max(ms * 1_000_000);
        }
    }
    best
}

/// no per-execution oracle (the verdict comes from comparing builds)
pub fn none(_scn: &Scenario, _tr: &[Ev]) -> Vec<Violation> {
    Vec::new()
}

// ------------------------------------------------------------------ C12: a failing actor fails alone

fn first_actor_mentioned(detail: &str) -> Option<usize> {
    let i = detail.find("actor ")?;
    let rest = &detail[i + 6..];
    let num: String = rest.chars().take_while(|c| c.is_ascii_digit()).collect();
    num.parse().ok()
}

pub fn c12(scn: &Scenario, tr: &[Ev]) -> Vec<Violation> {
    let ix = Ix::new(scn, tr);
    let mut out = Vec::new();
    // victims: every actor that panicked or failed in this execution (the designed victim is actor 0; with a
    // deadlock-detection panic in a genuine cycle the detector decides which participant dies)
    let victims: Vec<usize> = ix.actors.iter().enumerate().filter(|(_, a)| a.crashed() || a.start_failed() || a.run_err().is_some() || matches!(&a.on_stop_exit, Some((_, o)) if o.starts_with("Err"))).map(|(i, _)| i).collect();
    for &vi in &victims {
        premise();
        let ax = &ix.actors[vi];
        // its JoinHandle reports the panic / failure
        if let Some((_, js)) = &ax.joined {
            if ax.crashed() && js.variant != "Panic" {
                v(&mut out, "C12 victim reports its panic", format!("actor {vi}: panicked but the JoinHandle gave {}", js.variant));
            }
            if !ax.crashed() && js.variant != "Failed" {
                v(&mut out, "C12 victim reports its failure", format!("actor {vi}: a hook returned Err but the JoinHandle gave {}", js.variant));
            }
        } else if !ix.hook_stuck(vi) {
            v(&mut out, "C12 victim's JoinHandle resolves", format!("actor {vi} crashed but its JoinHandle never resolved"));
        }
        // no on_stop after a panic
        if let (Some(p), Some((s, _))) = (ax.panics.first(), ax.on_stop_called.first()) {
            if s > p {
                v(&mut out, "C12 no on_stop after a panic", format!("actor {vi}: on_stop at {s} after the panic at {p}"));
            }
        }
        // pending and future senders get errors
        for o in ix.sends_to(vi) {
            match (&o.res, o.end) {
                (None, _) => {
                    if ax.joined.is_some() && !deadlock_panicked_op(&ix, o) {
                        v(&mut out, "C12 victim's senders get errors", format!("op {} to crashed actor {vi} is still pending", o.op));
                    }
                }
                (Some(r), Some(_)) => {
                    if let Some((j, _)) = &ax.joined {
                        if o.start > *j && !matches!(r, Res::Err { .. }) {
                            v(&mut out, "C12 victim's later senders get errors", format!("op {} to crashed actor {vi} -> {r:?}", o.op));
                        }
                    }
                }
                _ => {}
            }
        }
    }
    // a hook's panic belongs to its actor: spawn() itself never panics (capacity 0 apart)
    for e in tr {
        if let EvK::SpawnPanic { actor, msg } = &e.k {
            if !msg.contains("Mailbox capacity must be greater than 0") {
                v(&mut out, "C12 a failing actor fails alone", format!("spawning actor {actor} panicked in the spawner's own context: {}", msg.lines().next().unwrap_or("")));
            }
        }
    }
    // every other actor keeps satisfying the other properties
    let survivors: Vec<usize> = (0..ix.actors.len()).filter(|a| !victims.contains(a)).collect();
    let monitors: [(&str, fn(&Scenario, &[Ev]) -> Vec<Violation>); 7] = [("C01", c01), ("C02", c02), ("C03", c03), ("C04", c04), ("C05", c05), ("C08", c08), ("C11", c11)];
    for (name, m) in monitors {
        for x in m(scn, tr) {
            if let Some(a) = first_actor_mentioned(&x.detail) {
                if survivors.contains(&a) {
                    out.push(Violation { clause: format!("C12 survivor still satisfies {name}: {}", x.clause), detail: x.detail });
                }
            }
        }
    }
    // dead-letter accounting is exact for everybody, victim included
    for x in c13(scn, tr) {
        out.push(Violation { clause: format!("C12 dead-letter accounting intact: {}", x.clause), detail: x.detail });
    }
    // survivors never die
    for &a in &survivors {
        let ax = &ix.actors[a];
        if ax.spawned.is_some() && (ax.joined.is_some() || !ax.on_stop_called.is_empty()) && ix.first_stop(a).is_none() && ix.first_kill(a).is_none() {
            v(&mut out, "C12 peers keep running", format!("actor {a} ended although only other actors failed"));
        }
    }
    // follow-up traffic between survivors succeeds (asks issued after t=30 by client 2 and by the survivors' handlers)
    for o in ix.ops.iter() {
        let (Some(t), Some(k)) = (o.target, o.send_kind()) else { continue };
        if o.t0 >= 30 && survivors.contains(&t) && k.is_ask() {
            let from_survivor = match o.owner {
                Some(ow) if ow < ix.nc => true,
                Some(ow) => ix.owner_actor(ow).map(|a| survivors.contains(&a)).unwrap_or(true),
                None => true,
            };
            if from_survivor {
                premise();
                if !matches!(o.res, Some(Res::Rep { .. })) {
                    v(&mut out, "C12 survivors still serve each other", format!("op {} (ask to actor {t} after the crash) -> {:?}", o.op, o.res));
                }
            }
        }
    }
    // framework-wide state: ids still advance and stay unique, graph empty, lock not poisoned
    let mut raws: Vec<(usize, u64)> = ix.actors.iter().enumerate().filter_map(|(i, a)| a.spawned.map(|p| (p, a.raw.unwrap_or(0)))).map(|(p, r)| (p, r)).collect();
    raws.sort();
    for w in raws.windows(2) {
        if w[1].1 <= w[0].1 {
            v(&mut out, "C12 id allocation intact", format!("ids do not advance: {:?}", raws));
        }
    }
    for e in tr {
        if let EvK::LockPoisoned { poisoned: true } = &e.k {
            v(&mut out, "C12 wait-for lock not poisoned", "the wait-for graph mutex is poisoned after the run".into());
        }
    }
    if let Some(g) = tr.iter().rev().find_map(|e| if let EvK::Graph { edges } = &e.k { Some(edges.clone()) } else { None }) {
        let asks = actor_asks(&ix);
        let pending = asks.iter().any(|(k, a, _)| ix.ops[*k].end.is_none() && !deadlock_panicked(&ix, &ix.ops[*k]) && ask_live_until(&ix, &ix.ops[*k], *a) >= tr.len());
        if !g.is_empty() && !pending {
            v(&mut out, "C12 wait-for graph not corrupted", format!("graph after the run: {g:?}"));
        }
    }
    // a panic that is neither injected nor a deadlock report means the framework itself broke
    for (p, e) in tr.iter().enumerate() {
        if let EvK::Panic { msg, loc } = &e.k {
            if !msg.starts_with("injected:") && !msg.starts_with("Deadlock detected") {
                v(&mut out, "C12 no collateral panic", format!("unexpected panic at {p}: {msg} ({loc})"));
            }
        }
    }
    out
}

fn deadlock_panicked_op(ix: &Ix, o: &OpRec) -> bool {
    deadlock_panicked(ix, o)
}

// ------------------------------------------------------------------ C19 (runtime half): on_tell_result

pub fn c19rt(scn: &Scenario, tr: &[Ev]) -> Vec<Violation> {
    let ix = Ix::new(scn, tr);
    let mut out = Vec::new();
    for o in ix.ops.iter() {
        let (Some(k), Some(a), Some(m)) = (o.send_kind(), o.target, o.msg) else { continue };
        let Some(spec) = ix.msg_spec(m) else { continue };
        if !matches!(spec.kind, MsgKind::M1 | MsgKind::MR) {
            continue;
        }
        let ax = &ix.actors[a];
        let results: Vec<(usize, &String)> = tr.iter().enumerate().filter_map(|(i, e)| match &e.k {
            EvK::TellResult { actor, msg, val } if *actor == a && *msg == m => Some((i, val)),
            _ => None,
        }).collect();
        let exit = ax.handler_exit.get(&m);
        let finished_normally = exit.map(|(_, s)| !s.starts_with("Panic")).unwrap_or(false);
        if k.is_ask() {
            premise();
            if !results.is_empty() {
                v(&mut out, "C19 on_tell_result never after an ask", format!("actor {a}: message {m} was sent with {k:?} but on_tell_result ran ({} time(s))", results.len()));
            }
        } else if finished_normally {
            premise();
            if results.len() != 1 {
                v(&mut out, "C19 on_tell_result exactly once after a tell", format!("actor {a}: message {m} (tell) was handled but on_tell_result ran {} times", results.len()));
            } else {
                let (i, val) = results[0];
                let (x, s) = exit.unwrap();
                let want = match spec.kind {
                    MsgKind::M1 => s.rsplit('#').next().unwrap_or("").to_string(),
                    _ => match spec.out {
                        Outcome::Err(t) => format!("Err(\"{m}:{t}:{a}\")"),
                        _ => format!("Ok({m})"),
                    },
                };
                if *val != want || i < *x {
                    v(&mut out, "C19 on_tell_result gets the handler's value", format!("actor {a}: message {m}: on_tell_result saw {val:?}, the handler returned {want:?}"));
                }
            }
        } else if !results.is_empty() {
            v(&mut out, "C19 on_tell_result only after the handler", format!("actor {a}: message {m}: on_tell_result ran although the handler did not return"));
        }
    }
    out
}
