//! Stateless depth-first enumeration of schedules with replay, bounded by a deviation (preemption) bound.

use std::collections::HashSet;
use std::hash::{Hash, Hasher};
use std::sync::Arc;

use crate::model::*;
use crate::world::{run_one, Chooser, ExecResult};

pub struct Replay<'a> {
    pub prefix: &'a [u16],
    pub pos: usize,
    pub diverged: bool,
}

impl<'a> Chooser for Replay<'a> {
    fn choose(&mut self, n: usize, _cont: bool) -> usize {
        let k = if self.pos < self.prefix.len() {
            let k = self.prefix[self.pos] as usize;
            if k >= n {
                self.diverged = true;
                0
            } else {
                k
            }
        } else {
            0
        };
        self.pos += 1;
        k
    }
}

#[derive(Default, Clone, Debug, serde::Serialize, serde::Deserialize)]
pub struct Stats {
    pub scenarios: u64,
    pub executions: u64,
    pub states: u64,
    pub transitions: u64,
    pub choice_points: u64,
    pub max_branch: u64,
    pub execs_with_choice: u64,
    pub distinct_traces: u64,
    pub distinct_nontrivial: u64,
    pub pruned_by_bound: u64,
    pub scenarios_exhaustive: u64,
    pub scenarios_capped: u64,
    pub machinery_errors: u64,
    pub max_schedule_len: u64,
    #[serde(default)]
    pub premises: u64,
}

impl Stats {
    pub fn add(&mut self, o: &Stats) {
        self.scenarios += o.scenarios;
        self.executions += o.executions;
        self.states += o.states;
        self.transitions += o.transitions;
        self.choice_points += o.choice_points;
        self.max_branch = self.max_branch.max(o.max_branch);
        self.execs_with_choice += o.execs_with_choice;
        self.distinct_traces += o.distinct_traces;
        self.distinct_nontrivial += o.distinct_nontrivial;
        self.pruned_by_bound += o.pruned_by_bound;
        self.scenarios_exhaustive += o.scenarios_exhaustive;
        self.scenarios_capped += o.scenarios_capped;
        self.machinery_errors += o.machinery_errors;
        self.max_schedule_len = self.max_schedule_len.max(o.max_schedule_len);
        self.premises += o.premises;
    }
}

/// Replace process-wide actor ids by scenario-local indices so that traces compare across executions.
pub fn canon(trace: &[Ev], raw_ids: &[Option<u64>]) -> Vec<Ev> {
    let map_raw = |raw: u64| -> u64 {
        raw_ids
            .iter()
            .position(|r| *r == Some(raw))
            .map(|p| 1_000_000 + p as u64)
            .unwrap_or(raw)
    };
    let fix_str = |s: &str| -> String {
        let mut out = s.to_string();
        for (j, r) in raw_ids.iter().enumerate() {
            if let Some(r) = r {
                out = out.replace(&format!("#{r})"), &format!("#L{j})"));
            }
        }
        out
    };
    trace
        .iter()
        .map(|e| {
            let mut e = e.clone();
            match &mut e.k {
                EvK::Dl { raw_id, .. } => *raw_id = map_raw(*raw_id),
                EvK::Spawned { raw, .. } => *raw = map_raw(*raw),
                EvK::Log { msg, .. } => {
                    // free-form log text may contain wall-clock durations: digits are not part of the observation
                    let fixed = fix_str(msg);
                    let mut out = String::with_capacity(fixed.len());
                    let mut in_num = false;
                    for ch in fixed.chars() {
                        if ch.is_ascii_digit() || (in_num && ch == '.') {
                            if !in_num {
                                out.push('N');
                            }
                            in_num = true;
                        } else {
                            in_num = false;
                            out.push(ch);
                        }
                    }
                    *msg = out;
                }
                EvK::Panic { msg, .. } => *msg = fix_str(msg),
                EvK::OpEnd { res: Res::Ident { raw, .. }, .. } => *raw = map_raw(*raw),
                EvK::Joined { summary, .. } => {
                    if let Some(m) = &mut summary.panic_msg {
                        *m = fix_str(m);
                    }
                }
                _ => {}
            }
            e
        })
        .collect()
}

pub fn hash_trace(t: &[Ev]) -> u64 {
    let mut h = std::collections::hash_map::DefaultHasher::new();
    for e in t {
        // wall-clock measurements are not part of the reproducible observation
        if let EvK::OpEnd { op, res: Res::Metrics { count, consistent, .. } } = &e.k {
            (e.t, e.owner, op, count, consistent).hash(&mut h);
        } else {
            e.hash(&mut h);
        }
    }
    h.finish()
}

#[derive(Clone, Debug, serde::Serialize, serde::Deserialize)]
pub struct Violation {
    pub clause: String,
    pub detail: String,
}

#[derive(Clone, Debug, serde::Serialize, serde::Deserialize)]
pub struct Found {
    pub scenario: Scenario,
    pub schedule: Vec<u16>,
    pub violations: Vec<Violation>,
    pub trace: Vec<Ev>,
    pub reproduced: bool,
}

pub struct Limits {
    pub bound: Option<u32>,
    pub max_execs: u64,
}

pub type Monitor = dyn Fn(&Scenario, &[Ev]) -> Vec<Violation>;

pub struct ScenarioOutcome {
    pub found: Option<Found>,
    pub exhaustive: bool,
    pub capped: bool,
    /// hash over the (schedule, canonical trace) pairs in DFS order, and over the set of traces
    pub tree_sig: u64,
    pub set_sig: u64,
    pub trace_hashes: Vec<u64>,
}

/// what the worker is executing right now (for the hang watchdog)
pub static CURRENT: std::sync::Mutex<Option<(String, Vec<u16>)>> = std::sync::Mutex::new(None);
pub static HEARTBEAT: std::sync::atomic::AtomicU64 = std::sync::atomic::AtomicU64::new(0);

pub fn run_schedule(scn: &Arc<Scenario>, schedule: &[u16]) -> (ExecResult, bool) {
    if let Ok(mut c) = CURRENT.lock() {
        *c = Some((serde_json::to_string(&**scn).unwrap_or_default(), schedule.to_vec()));
    }
    HEARTBEAT.fetch_add(1, std::sync::atomic::Ordering::SeqCst);
    let mut ch = Replay { prefix: schedule, pos: 0, diverged: false };
    let r = run_one(scn, &mut ch);
    (r, ch.diverged)
}

/// Explore all schedules of one scenario (up to the deviation bound); stop at the first violation.
pub fn explore_scenario(
    scn: &Arc<Scenario>,
    lim: &Limits,
    monitor: &Monitor,
    stats: &mut Stats,
    sample: &mut Option<serde_json::Value>,
) -> ScenarioOutcome {
    let mut stack: Vec<Vec<u16>> = vec![vec![]];
    let mut seen: HashSet<u64> = HashSet::new();
    let mut seen_nt: HashSet<u64> = HashSet::new();
    let mut execs = 0u64;
    let mut pruned = 0u64;
    let mut capped = false;
    let mut tree = std::collections::hash_map::DefaultHasher::new();
    let mut found = None;
    stats.scenarios += 1;
    // a scenario can carry its own, lower cap (tag "maxexecs=N"): the very large ones cost milliseconds per execution
    let own_cap: Option<u64> = scn.tags.iter().find_map(|t| t.strip_prefix("maxexecs=").and_then(|c| c.parse().ok()));
    let max_execs = own_cap.map(|c| c.min(lim.max_execs)).unwrap_or(lim.max_execs);
    // ... or its own preemption bound (tag "bound=N")
    let own_bound: Option<u32> = scn.tags.iter().find_map(|t| t.strip_prefix("bound=").and_then(|c| c.parse().ok()));
    let bound: Option<u32> = match (lim.bound, own_bound) {
        (Some(a), Some(b)) => Some(a.min(b)),
        (None, b) => b,
        (a, None) => a,
    };
    while let Some(prefix) = stack.pop() {
        if execs >= max_execs {
            capped = true;
            break;
        }
        // scenarios whose outcome depends on process-wide counters starting fresh run every execution in a child process
        let (res, diverged, ct) = if scn.has_tag("fresh_process") || TAINTED.load(std::sync::atomic::Ordering::SeqCst) {
            match run_schedule_fresh(scn, &prefix) {
                Some(x) => x,
                None => {
                    stats.machinery_errors += 1;
                    eprintln!("MACHINERY scenario={} schedule={:?}: fresh-process execution failed", scn.name, prefix);
                    continue;
                }
            }
        } else {
            let (res, diverged) = run_schedule(scn, &prefix);
            let ct = canon(&res.trace, &res.raw_ids);
            (res, diverged, ct)
        };
        execs += 1;
        stats.executions += 1;
        stats.states += res.points;
        stats.transitions += res.actions;
        if diverged || res.error.is_some() {
            stats.machinery_errors += 1;
            eprintln!(
                "MACHINERY scenario={} schedule={:?} diverged={} error={:?}",
                scn.name, prefix, diverged, res.error
            );
            continue;
        }
        let h = if scn.has_tag("feature_neutral") { hash_trace(&feature_neutral(&ct)) } else { hash_trace(&ct) };
        let chosen: Vec<u16> = res.steps.iter().map(|s| s.chosen as u16).collect();
        chosen.hash(&mut tree);
        h.hash(&mut tree);
        seen.insert(h);
        if !res.steps.is_empty() {
            stats.execs_with_choice += 1;
            seen_nt.insert(h);
        }
        stats.choice_points += res.steps.len() as u64;
        stats.max_schedule_len = stats.max_schedule_len.max(res.steps.len() as u64);
        for s in &res.steps {
            stats.max_branch = stats.max_branch.max(s.n as u64);
        }
        if sample.is_none() && res.steps.len() >= 2 {
            *sample = Some(serde_json::json!({
                "scenario": scn.name,
                "schedule": chosen,
                "trace": ct.iter().map(crate::render).collect::<Vec<_>>(),
            }));
        }
        let mut v = monitor(scn, &ct);
        stats.premises += crate::mon::take_premises();
        if ct.iter().any(|e| matches!(e.k, EvK::Livelock { .. })) {
            v.push(Violation {
                clause: "no livelock".into(),
                detail: format!("hook code was polled more than {} times without the runtime ever becoming idle: a loop of the code under test spins", crate::msched::POLL_LIMIT),
            });
        }
        let mut v = v;
        if !v.is_empty() {
            // replay twice, each time in a fresh process (process-wide statics of rsactor may have been damaged
            // by the very defect that is being reported): a violation must reproduce identically before it is reported
            let mut same = fresh_replay_hash(scn, &chosen) == Some(h) && fresh_replay_hash(scn, &chosen) == Some(h);
            let mut ct = ct;
            if !same {
                // this worker process carries state that a fresh process does not (rsactor's process-wide statics
                // damaged by an earlier execution): what the fresh process shows is what counts, and from here on
                // this worker runs every execution in a child process
                TAINTED.store(true, std::sync::atomic::Ordering::SeqCst);
                if let (Some((r1, d1, t1)), Some((_, d2, t2))) = (run_schedule_fresh(scn, &chosen), run_schedule_fresh(scn, &chosen)) {
                    let neutral = scn.has_tag("feature_neutral");
                    let hh = |t: &Vec<Ev>| if neutral { hash_trace(&feature_neutral(t)) } else { hash_trace(t) };
                    if !d1 && !d2 && r1.error.is_none() && hh(&t1) == hh(&t2) {
                        let fv = monitor(scn, &t1);
                        let _ = crate::mon::take_premises();
                        if !fv.is_empty() {
                            v = fv;
                            ct = t1;
                            same = true;
                        }
                    }
                }
            }
            // keep the artefact readable: the first violations and the first events are enough to understand it
            v.truncate(8);
            ct.truncate(600);
            found = Some(Found {
                scenario: (**scn).clone(),
                schedule: chosen,
                violations: v,
                trace: ct,
                reproduced: same,
            });
            break;
        }
        // alternatives at positions not fixed by the prefix
        let mut pre = 0u32;
        let mut alts: Vec<Vec<u16>> = Vec::new();
        for (i, s) in res.steps.iter().enumerate() {
            if i >= prefix.len() {
                for alt in 1..s.n {
                    let cost = pre + if s.cont { 1 } else { 0 };
                    if bound.map(|b| cost <= b).unwrap_or(true) {
                        let mut p: Vec<u16> = chosen[..i].to_vec();
                        p.push(alt as u16);
                        alts.push(p);
                    } else {
                        pruned += 1;
                    }
                }
            }
            if s.cont && s.chosen != 0 {
                pre += 1;
            }
        }
        while let Some(a) = alts.pop() {
            stack.push(a);
        }
    }
    stats.distinct_traces += seen.len() as u64;
    stats.distinct_nontrivial += seen_nt.len() as u64;
    stats.pruned_by_bound += pruned;
    let exhaustive = !capped && pruned == 0 && found.is_none();
    if exhaustive {
        stats.scenarios_exhaustive += 1;
    }
    if capped {
        stats.scenarios_capped += 1;
    }
    let mut hs: Vec<u64> = seen.into_iter().collect();
    hs.sort_unstable();
    let mut seth = std::collections::hash_map::DefaultHasher::new();
    hs.hash(&mut seth);
    ScenarioOutcome {
        found,
        exhaustive,
        capped,
        tree_sig: tree.finish(),
        set_sig: seth.finish(),
        trace_hashes: hs,
    }
}

// ------------------------------------------------------------------ differential exploration

pub struct Collected {
    /// schedule -> hash of the projected trace, in DFS order
    pub by_schedule: std::collections::BTreeMap<Vec<u16>, u64>,
    pub exhaustive: bool,
    pub sample_lines: std::collections::HashMap<u64, Vec<String>>,
}

fn hash_lines(l: &[String]) -> u64 {
    let mut h = std::collections::hash_map::DefaultHasher::new();
    l.hash(&mut h);
    h.finish()
}

/// Explore all schedules of `scn`, recording the projected trace of each execution.
pub fn explore_collect(scn: &Arc<Scenario>, lim: &Limits, project: &dyn Fn(&[Ev]) -> Vec<String>, stats: &mut Stats, keep_lines: bool) -> Collected {
    let mut stack: Vec<Vec<u16>> = vec![vec![]];
    let mut by_schedule = std::collections::BTreeMap::new();
    let mut sample_lines = std::collections::HashMap::new();
    let mut seen: HashSet<u64> = HashSet::new();
    let mut execs = 0u64;
    let mut pruned = 0u64;
    let mut capped = false;
    stats.scenarios += 1;
    while let Some(prefix) = stack.pop() {
        if execs >= lim.max_execs {
            capped = true;
            break;
        }
        let (res, diverged) = run_schedule(scn, &prefix);
        execs += 1;
        stats.executions += 1;
        stats.states += res.points;
        stats.transitions += res.actions;
        if diverged || res.error.is_some() {
            stats.machinery_errors += 1;
            eprintln!("MACHINERY scenario={} schedule={:?} diverged={} error={:?}", scn.name, prefix, diverged, res.error);
            continue;
        }
        let ct = canon(&res.trace, &res.raw_ids);
        let lines = project(&ct);
        let h = hash_lines(&lines);
        let chosen: Vec<u16> = res.steps.iter().map(|s| s.chosen as u16).collect();
        if !res.steps.is_empty() {
            stats.execs_with_choice += 1;
        }
        if seen.insert(h) && !res.steps.is_empty() {
            stats.distinct_nontrivial += 1;
        }
        if keep_lines {
            sample_lines.entry(h).or_insert(lines);
        }
        by_schedule.insert(chosen.clone(), h);
        stats.choice_points += res.steps.len() as u64;
        stats.max_schedule_len = stats.max_schedule_len.max(res.steps.len() as u64);
        for s in &res.steps {
            stats.max_branch = stats.max_branch.max(s.n as u64);
        }
        let mut pre = 0u32;
        let mut alts: Vec<Vec<u16>> = Vec::new();
        for (i, s) in res.steps.iter().enumerate() {
            if i >= prefix.len() {
                for alt in 1..s.n {
                    let cost = pre + if s.cont { 1 } else { 0 };
                    if lim.bound.map(|b| cost <= b).unwrap_or(true) {
                        let mut p: Vec<u16> = chosen[..i].to_vec();
                        p.push(alt as u16);
                        alts.push(p);
                    } else {
                        pruned += 1;
                    }
                }
            }
            if s.cont && s.chosen != 0 {
                pre += 1;
            }
        }
        while let Some(a) = alts.pop() {
            stack.push(a);
        }
    }
    stats.distinct_traces += seen.len() as u64;
    stats.pruned_by_bound += pruned;
    if capped {
        stats.scenarios_capped += 1;
    }
    let exhaustive = !capped && pruned == 0;
    if exhaustive {
        stats.scenarios_exhaustive += 1;
    }
    Collected { by_schedule, exhaustive, sample_lines }
}

/// Compare a variant against its base: same schedule => same projected trace; if the schedule trees differ,
/// the sets of projected traces of the two complete trees must be equal.
pub fn compare_variant(base: &Collected, var: &Collected) -> Option<(Vec<u16>, String)> {
    let same_shape = base.by_schedule.len() == var.by_schedule.len() && base.by_schedule.keys().all(|k| var.by_schedule.contains_key(k));
    if same_shape {
        for (k, hv) in &var.by_schedule {
            if base.by_schedule[k] != *hv {
                return Some((k.clone(), "the same schedule gives a different observable trace".to_string()));
            }
        }
        return None;
    }
    if !(base.exhaustive && var.exhaustive) {
        // bounded trees of different shape cannot be compared soundly: no verdict from this pair
        return None;
    }
    let bs: HashSet<u64> = base.by_schedule.values().copied().collect();
    let vs: HashSet<u64> = var.by_schedule.values().copied().collect();
    for (k, hv) in &var.by_schedule {
        if !bs.contains(hv) {
            return Some((k.clone(), "an observable trace of this run is produced by no schedule of the reference run".to_string()));
        }
    }
    for (k, hb) in &base.by_schedule {
        if !vs.contains(hb) {
            return Some((k.clone(), "REFERENCE-ONLY: an observable trace of the reference run is produced by no schedule of this run".to_string()));
        }
    }
    None
}

/// The part of a trace that must not depend on which optional rsactor features are compiled in.
pub fn feature_neutral(t: &[Ev]) -> Vec<Ev> {
    let mut hidden: HashSet<u32> = HashSet::new();
    t.iter()
        .filter(|e| match &e.k {
            EvK::Log { .. } | EvK::DlCount { .. } | EvK::Graph { .. } | EvK::Quiet { .. } | EvK::LockPoisoned { .. } => false,
            EvK::OpStart { op, k: OpK::Metrics, .. } => {
                hidden.insert(*op);
                false
            }
            EvK::OpEnd { op, .. } => !hidden.contains(op),
            _ => true,
        })
        .cloned()
        .collect()
}

/// Set once an in-process violation failed to reproduce in a fresh process: the worker no longer trusts its own
/// process state and runs every further execution in a child process.
pub static TAINTED: std::sync::atomic::AtomicBool = std::sync::atomic::AtomicBool::new(false);

/// Hash of the canonical trace of (scenario, schedule), computed by a fresh child process of this binary.
pub fn fresh_replay_hash(scn: &Arc<Scenario>, schedule: &[u16]) -> Option<u64> {
    let exe = std::env::current_exe().ok()?;
    let dir = std::env::temp_dir();
    let file = dir.join(format!("rsv-replay-{}-{:x}.json", std::process::id(), hash_trace(&[]) ^ schedule.len() as u64 ^ (scn.name.len() as u64) << 8));
    let body = serde_json::json!({"scenario": **scn, "schedule": schedule});
    std::fs::write(&file, serde_json::to_string(&body).ok()?).ok()?;
    let out = std::process::Command::new(exe).arg("hash-replay").arg(&file).output().ok()?;
    let _ = std::fs::remove_file(&file);
    let text = String::from_utf8_lossy(&out.stdout);
    text.lines().find_map(|l| l.strip_prefix("HASH ").and_then(|h| u64::from_str_radix(h.trim(), 16).ok()))
}

/// One execution in a fresh child process of this binary; returns the step records and the canonical trace.
pub fn run_schedule_fresh(scn: &Arc<Scenario>, schedule: &[u16]) -> Option<(ExecResult, bool, Vec<Ev>)> {
    let exe = std::env::current_exe().ok()?;
    let file = std::env::temp_dir().join(format!("rsv-exec-{}-{}.json", std::process::id(), HEARTBEAT.load(std::sync::atomic::Ordering::SeqCst)));
    HEARTBEAT.fetch_add(1, std::sync::atomic::Ordering::SeqCst);
    let body = serde_json::json!({"scenario": **scn, "schedule": schedule});
    std::fs::write(&file, serde_json::to_string(&body).ok()?).ok()?;
    let out = std::process::Command::new(exe).arg("exec-json").arg(&file).output().ok()?;
    let _ = std::fs::remove_file(&file);
    let text = String::from_utf8_lossy(&out.stdout);
    let line = text.lines().rev().find(|l| l.starts_with('{'))?;
    let v: serde_json::Value = serde_json::from_str(line).ok()?;
    let steps: Vec<crate::world::StepRec> = v["steps"].as_array()?.iter().map(|s| crate::world::StepRec { n: s[0].as_u64().unwrap_or(0) as usize, chosen: s[1].as_u64().unwrap_or(0) as usize, cont: s[2].as_bool().unwrap_or(false) }).collect();
    let trace: Vec<Ev> = serde_json::from_value(v["trace"].clone()).ok()?;
    let res = ExecResult {
        trace: Vec::new(),
        steps,
        points: v["points"].as_u64().unwrap_or(0),
        actions: v["actions"].as_u64().unwrap_or(0),
        error: v["error"].as_str().map(|s| s.to_string()),
        raw_ids: Vec::new(),
    };
    Some((res, v["diverged"].as_bool().unwrap_or(false), trace))
}
