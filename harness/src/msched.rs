//! msched core: logical tasks under a controller, on top of a real tokio current-thread runtime.
//!
//! Every harness-owned future (client programs, bodies of actor hooks, helper tasks) is wrapped in
//! `Controlled`.  A `Controlled` future only polls its inner future when the controller has granted
//! it a turn, and it polls it with a proxy waker that merely records the wake-up.  The controller
//! acts whenever the runtime is about to park (nothing left to run): the state is then stable.

use std::cell::RefCell;
use std::collections::BTreeSet;
use std::future::Future;
use std::pin::Pin;
use std::sync::atomic::{AtomicBool, Ordering::SeqCst};
use std::sync::{Arc, Mutex};
use std::task::{Context, Poll, Wake, Waker};
use std::time::Duration;

use crate::model::{Ev, EvK};

/// One live instance of a controlled future (doubles as its proxy waker).
pub struct Inst {
    pub owner: usize,
    woken: AtomicBool,
    granted: AtomicBool,
    done: AtomicBool,
    tokio_waker: Mutex<Option<Waker>>,
}

impl Wake for Inst {
    fn wake(self: Arc<Self>) {
        self.woken.store(true, SeqCst);
    }
    fn wake_by_ref(self: &Arc<Self>) {
        self.woken.store(true, SeqCst);
    }
}

#[derive(Clone, Copy, PartialEq, Eq, Debug)]
pub enum St {
    Runnable,
    Blocked,
    Done,
}

pub struct Ctl {
    /// current instance per owner (logical task)
    pub insts: Vec<Option<Arc<Inst>>>,
    pub labels: Vec<String>,
    pub current: Option<usize>,
    pub trace: Vec<Ev>,
    pub now: u64,
    pub deadlines: BTreeSet<u64>,
    pub quiescent: bool,
    pub main_waker: Option<Waker>,
    pub polls: u64,
    pub machinery_error: Option<String>,
    pub next_op: u32,
    pub livelock: bool,
}

impl Ctl {
    fn new() -> Self {
        Ctl {
            insts: Vec::new(),
            labels: Vec::new(),
            current: None,
            trace: Vec::new(),
            now: 0,
            deadlines: BTreeSet::new(),
            quiescent: false,
            main_waker: None,
            polls: 0,
            machinery_error: None,
            next_op: 0,
            livelock: false,
        }
    }
}

thread_local! {
    pub static CTL: RefCell<Ctl> = RefCell::new(Ctl::new());
}

pub fn reset() {
    CTL.with(|c| *c.borrow_mut() = Ctl::new());
    SIGS.with(|s| s.borrow_mut().clear());
}

pub fn with<R>(f: impl FnOnce(&mut Ctl) -> R) -> R {
    CTL.with(|c| f(&mut c.borrow_mut()))
}

pub fn new_owner(label: &str) -> usize {
    with(|c| {
        c.insts.push(None);
        c.labels.push(label.to_string());
        c.insts.len() - 1
    })
}

thread_local! {
    static SIGS: RefCell<Vec<Arc<tokio::sync::Notify>>> = RefCell::new(Vec::new());
}

pub fn sig(i: u8) -> Arc<tokio::sync::Notify> {
    SIGS.with(|s| {
        let mut s = s.borrow_mut();
        while s.len() <= i as usize {
            s.push(Arc::new(tokio::sync::Notify::new()));
        }
        s[i as usize].clone()
    })
}

pub fn now() -> u64 {
    with(|c| c.now)
}

pub fn current() -> Option<usize> {
    with(|c| c.current)
}

pub fn next_op_id() -> u32 {
    with(|c| {
        c.next_op += 1;
        c.next_op
    })
}

/// Append an event to the trace of the running execution.
pub fn ev(k: EvK) {
    CTL.with(|c| {
        if let Ok(mut c) = c.try_borrow_mut() {
            let t = c.now;
            let owner = c.current;
            c.trace.push(Ev { t, owner, k });
        } else {
            LATE.lock().unwrap().push(k);
        }
    });
}

static LATE: Mutex<Vec<EvK>> = Mutex::new(Vec::new());

pub fn machinery_error(msg: String) {
    with(|c| {
        if c.machinery_error.is_none() {
            c.machinery_error = Some(msg);
        }
    });
}

pub fn register_deadline(ms_from_now: u64) {
    with(|c| {
        let d = c.now + ms_from_now;
        c.deadlines.insert(d);
    });
}

/// Status of an owner's current instance.
pub fn status(owner: usize) -> St {
    with(|c| match &c.insts[owner] {
        None => St::Done,
        Some(i) => {
            if i.done.load(SeqCst) {
                St::Done
            } else if i.woken.load(SeqCst) {
                St::Runnable
            } else {
                St::Blocked
            }
        }
    })
}

pub fn n_owners() -> usize {
    with(|c| c.insts.len())
}

/// Grant one turn to `owner` and wake the tokio task that contains it.
pub fn grant(owner: usize) {
    let w = with(|c| {
        let i = c.insts[owner].as_ref().expect("grant: no instance");
        i.granted.store(true, SeqCst);
        let w = i.tokio_waker.lock().unwrap().take();
        w
    });
    match w {
        Some(w) => w.wake(),
        None => machinery_error(format!("grant({owner}): no tokio waker stored")),
    }
}

/// true if the grant given to `owner` has been consumed (used as a sanity check)
pub fn grant_consumed(owner: usize) -> bool {
    with(|c| match &c.insts[owner] {
        None => true,
        Some(i) => !i.granted.load(SeqCst),
    })
}

type BoxFut<'a, T> = Pin<Box<dyn Future<Output = T> + Send + 'a>>;

/// A future that runs only on the controller's say-so.
pub struct Controlled<'a, T> {
    owner: usize,
    free: bool,
    entry_yield: bool,
    on_first: Option<Box<dyn FnOnce() + Send + 'a>>,
    on_cancel: Option<Box<dyn FnOnce() + Send + 'a>>,
    inner: BoxFut<'a, T>,
    inst: Option<Arc<Inst>>,
}

impl<'a, T> Controlled<'a, T> {
    pub fn new(
        owner: usize,
        entry_yield: bool,
        on_first: Option<Box<dyn FnOnce() + Send + 'a>>,
        on_cancel: Option<Box<dyn FnOnce() + Send + 'a>>,
        inner: BoxFut<'a, T>,
    ) -> Self {
        Controlled {
            owner,
            free: false,
            entry_yield,
            on_first,
            on_cancel,
            inner,
            inst: None,
        }
    }
}

impl<'a, T> Controlled<'a, T> {
    /// Free-running: the inner future is polled whenever the enclosing task is, with the real waker.
    pub fn free(mut self, free: bool) -> Self {
        self.free = free;
        self
    }
}

pub const POLL_LIMIT: u64 = 20_000;

/// A scripted step that legitimately polls its hook very often (a warm-up of thousands of asks) reports its
/// progress here so that the watchdog below does not take it for a spin.
pub fn scripted_progress() {
    with(|c| c.polls = 0);
}

/// Hook code polled this often within one execution means the runtime never went idle: some loop of the code
/// under test spins. Recorded once in the trace; the spinning task is then ended by a panic so that the
/// execution can finish and be reported with its replay.
fn livelock_check(prev: Option<usize>) {
    let hit = with(|c| {
        if c.polls > POLL_LIMIT && !c.livelock {
            c.livelock = true;
            c.current = prev;
            true
        } else {
            false
        }
    });
    if hit {
        ev(EvK::Livelock { polls: POLL_LIMIT });
        panic!("injected:livelock-watchdog");
    }
}

struct PollGuard {
    prev: Option<usize>,
    inst: Arc<Inst>,
}
impl Drop for PollGuard {
    fn drop(&mut self) {
        if std::thread::panicking() {
            self.inst.done.store(true, SeqCst);
        }
        let prev = self.prev;
        CTL.with(|c| {
            if let Ok(mut c) = c.try_borrow_mut() {
                c.current = prev;
            }
        });
    }
}

impl<'a, T> Future for Controlled<'a, T> {
    type Output = T;
    fn poll(self: Pin<&mut Self>, cx: &mut Context<'_>) -> Poll<T> {
        let this = self.get_mut();
        if this.inst.is_none() {
            let inst = Arc::new(Inst {
                owner: this.owner,
                woken: AtomicBool::new(false),
                granted: AtomicBool::new(false),
                done: AtomicBool::new(false),
                tokio_waker: Mutex::new(None),
            });
            let owner = this.owner;
            let clash = with(|c| {
                let clash = match &c.insts[owner] {
                    Some(old) => !old.done.load(SeqCst),
                    None => false,
                };
                c.insts[owner] = Some(inst.clone());
                clash
            });
            if clash {
                machinery_error(format!("owner {owner}: two live controlled futures"));
            }
            if let Some(f) = this.on_first.take() {
                let prev = with(|c| std::mem::replace(&mut c.current, Some(owner)));
                f();
                with(|c| c.current = prev);
            }
            if this.free {
                // never offered to the controller
            } else if this.entry_yield {
                inst.woken.store(true, SeqCst);
            } else {
                inst.granted.store(true, SeqCst);
            }
            this.inst = Some(inst);
        }
        let inst = this.inst.as_ref().unwrap().clone();
        if this.free {
            let prev = with(|c| {
                c.polls += 1;
                std::mem::replace(&mut c.current, Some(this.owner))
            });
            livelock_check(prev);
            let guard = PollGuard { prev, inst: inst.clone() };
            let r = this.inner.as_mut().poll(cx);
            drop(guard);
            if r.is_ready() {
                inst.done.store(true, SeqCst);
            }
            return r;
        }
        if !inst.granted.swap(false, SeqCst) {
            *inst.tokio_waker.lock().unwrap() = Some(cx.waker().clone());
            return Poll::Pending;
        }
        inst.woken.store(false, SeqCst);
        let prev = with(|c| {
            c.polls += 1;
            std::mem::replace(&mut c.current, Some(this.owner))
        });
        livelock_check(prev);
        let guard = PollGuard {
            prev,
            inst: inst.clone(),
        };
        let waker = Waker::from(inst.clone());
        let r = this.inner.as_mut().poll(&mut Context::from_waker(&waker));
        drop(guard);
        match r {
            Poll::Ready(v) => {
                inst.done.store(true, SeqCst);
                Poll::Ready(v)
            }
            Poll::Pending => {
                *inst.tokio_waker.lock().unwrap() = Some(cx.waker().clone());
                Poll::Pending
            }
        }
    }
}

impl<'a, T> Drop for Controlled<'a, T> {
    fn drop(&mut self) {
        if let Some(inst) = &self.inst {
            if !inst.done.swap(true, SeqCst) {
                if let Some(f) = self.on_cancel.take() {
                    f();
                }
            }
        }
    }
}

/// A scheduling point: hand control back to the controller, stay runnable.
pub struct YieldPoint(bool);
pub fn yield_point() -> YieldPoint {
    YieldPoint(false)
}
impl Future for YieldPoint {
    type Output = ();
    fn poll(mut self: Pin<&mut Self>, cx: &mut Context<'_>) -> Poll<()> {
        if self.0 {
            Poll::Ready(())
        } else {
            self.0 = true;
            cx.waker().wake_by_ref();
            Poll::Pending
        }
    }
}

/// Controller side: wait until the runtime has nothing left to run.
pub struct Quiesce;
impl Future for Quiesce {
    type Output = ();
    fn poll(self: Pin<&mut Self>, cx: &mut Context<'_>) -> Poll<()> {
        with(|c| {
            if c.quiescent {
                c.quiescent = false;
                Poll::Ready(())
            } else {
                c.main_waker = Some(cx.waker().clone());
                Poll::Pending
            }
        })
    }
}

pub async fn quiesce() {
    // drop a possibly stale flag: we want a park that happens after this call
    with(|c| c.quiescent = false);
    Quiesce.await
}

fn on_park() {
    let w = CTL.with(|c| {
        if let Ok(mut c) = c.try_borrow_mut() {
            c.quiescent = true;
            c.main_waker.take()
        } else {
            None
        }
    });
    if let Some(w) = w {
        w.wake();
    }
}

/// Advance the paused clock to absolute virtual time `to` (ms) and let expired timers fire.
pub async fn advance_to(to: u64) {
    let d = with(|c| {
        let d = to - c.now;
        c.now = to;
        let keep = c.deadlines.split_off(&(to + 1));
        c.deadlines = keep;
        d
    });
    tokio::time::advance(Duration::from_millis(d)).await;
}

pub fn next_deadline() -> Option<u64> {
    with(|c| {
        let now = c.now;
        let keep = c.deadlines.split_off(&(now + 1));
        c.deadlines = keep;
        c.deadlines.iter().next().copied()
    })
}

pub fn build_runtime(seed: u64) -> tokio::runtime::Runtime {
    let mut b = tokio::runtime::Builder::new_current_thread();
    b.enable_time().start_paused(true).on_thread_park(on_park);
    b.rng_seed(tokio::runtime::RngSeed::from_bytes(&seed.to_le_bytes()));
    b.build().expect("runtime")
}

// ---------------------------------------------------------------- panic hook

pub fn install_panic_hook() {
    std::panic::set_hook(Box::new(|info| {
        let msg = if let Some(s) = info.payload().downcast_ref::<&str>() {
            s.to_string()
        } else if let Some(s) = info.payload().downcast_ref::<String>() {
            s.clone()
        } else {
            "<non-string panic>".to_string()
        };
        let loc = info
            .location()
            .map(|l| format!("{}:{}", l.file(), l.line()))
            .unwrap_or_default();
        let in_harness_thread = CTL.with(|c| {
            if let Ok(mut c) = c.try_borrow_mut() {
                let t = c.now;
                let owner = c.current;
                let expected = msg.starts_with("injected:") || msg.starts_with("Deadlock detected");
                if !expected && c.machinery_error.is_none() && owner.is_none() {
                    // a panic outside any logical task: harness or framework glue
                    c.trace.push(Ev { t, owner, k: EvK::Panic { msg: msg.clone(), loc: loc.clone() } });
                } else {
                    c.trace.push(Ev { t, owner, k: EvK::Panic { msg: msg.clone(), loc: loc.clone() } });
                }
                true
            } else {
                false
            }
        });
        if !in_harness_thread || std::env::var("RSV_SHOW_PANICS").is_ok() {
            eprintln!("panic: {msg} at {loc}");
        }
    }));
}

// ---------------------------------------------------------------- tracing capture

pub struct Capture;

struct FieldVisitor {
    fields: Vec<(String, String)>,
}
impl tracing::field::Visit for FieldVisitor {
    fn record_debug(&mut self, field: &tracing::field::Field, value: &dyn std::fmt::Debug) {
        self.fields.push((field.name().to_string(), format!("{value:?}")));
    }
    fn record_str(&mut self, field: &tracing::field::Field, value: &str) {
        self.fields.push((field.name().to_string(), value.to_string()));
    }
    fn record_u64(&mut self, field: &tracing::field::Field, value: u64) {
        self.fields.push((field.name().to_string(), value.to_string()));
    }
}

impl tracing::Subscriber for Capture {
    fn enabled(&self, _m: &tracing::Metadata<'_>) -> bool {
        // (the answer is cached per call site by tracing: TRACE_OFF is set once, at process start, or never)
        !TRACE_OFF.load(std::sync::atomic::Ordering::Relaxed)
    }
    fn new_span(&self, _s: &tracing::span::Attributes<'_>) -> tracing::span::Id {
        crate::tsched::trace_point();
        tracing::span::Id::from_u64(1)
    }
    fn record(&self, _s: &tracing::span::Id, _v: &tracing::span::Record<'_>) {}
    fn record_follows_from(&self, _s: &tracing::span::Id, _f: &tracing::span::Id) {}
    fn event(&self, event: &tracing::Event<'_>) {
        // tsched: every tracing event emitted by a scheduled OS thread is a scheduling point
        crate::tsched::trace_point();
        let level = *event.metadata().level();
        if level > tracing::Level::WARN {
            return; // info/debug/trace chatter is not part of the observable behaviour
        }
        let mut v = FieldVisitor { fields: Vec::new() };
        event.record(&mut v);
        let get = |k: &str| {
            v.fields
                .iter()
                .find(|(n, _)| n == k)
                .map(|(_, val)| val.clone())
        };
        if BT_ACTIVE.load(std::sync::atomic::Ordering::SeqCst) {
            // a "forwarding layer": while one is installed, every dead-letter event makes the subscriber itself send
            // something (to an actor that has ended, so that send fails and is a dead letter in its own right)
            if get("dead_letter.reason").is_some() {
                let fwd = FORWARD.lock().unwrap_or_else(|e| e.into_inner()).clone();
                if let Some(f) = fwd {
                    let nested = FORWARDING.with(|x| x.replace(true));
                    if !nested {
                        f();
                        FORWARDING.with(|x| x.set(false));
                    }
                }
            }
            // bthreads: events arrive from many OS threads, they go to one process-wide sink
            let mut sink = BT_SINK.lock().unwrap_or_else(|e| e.into_inner());
            if let Some(reason) = get("dead_letter.reason") {
                sink.dls.push(BtDl {
                    actor_id: get("actor.id").and_then(|s| s.parse().ok()).unwrap_or(0),
                    msg_type: get("message.type_name").unwrap_or_default(),
                    reason,
                    op: get("dead_letter.operation").unwrap_or_default(),
                });
            } else {
                sink.logs.push(format!("{level} {}", get("message").unwrap_or_default()));
            }
            return;
        }
        if let Some(reason) = get("dead_letter.reason") {
            ev(EvK::Dl {
                raw_id: get("actor.id").and_then(|s| s.parse().ok()).unwrap_or(0),
                actor_type: get("actor.type_name").unwrap_or_default(),
                msg_type: get("message.type_name").unwrap_or_default(),
                reason,
                op: get("dead_letter.operation").unwrap_or_default(),
            });
        } else {
            let mut msg = get("message").unwrap_or_default();
            for (k, val) in &v.fields {
                if k != "message" {
                    msg.push_str(&format!(" {k}={val}"));
                }
            }
            ev(EvK::Log {
                level: level.to_string(),
                msg,
            });
        }
    }
    fn enter(&self, _s: &tracing::span::Id) {
        crate::tsched::trace_point();
    }
    fn exit(&self, _s: &tracing::span::Id) {
        crate::tsched::trace_point();
    }
}

#[derive(Debug, Clone, serde::Serialize, serde::Deserialize, PartialEq)]
pub struct BtDl {
    pub actor_id: u64,
    pub msg_type: String,
    pub reason: String,
    pub op: String,
}

#[derive(Default)]
pub struct BtSink {
    pub dls: Vec<BtDl>,
    pub logs: Vec<String>,
    pub tell_results: Vec<u32>,
}

/// see Capture::event
pub static FORWARD: Mutex<Option<std::sync::Arc<dyn Fn() + Send + Sync>>> = Mutex::new(None);
thread_local! {
    static FORWARDING: std::cell::Cell<bool> = const { std::cell::Cell::new(false) };
}
pub static TRACE_OFF: std::sync::atomic::AtomicBool = std::sync::atomic::AtomicBool::new(false);
pub static BT_ACTIVE: std::sync::atomic::AtomicBool = std::sync::atomic::AtomicBool::new(false);
pub static BT_SINK: Mutex<BtSink> = Mutex::new(BtSink { dls: Vec::new(), logs: Vec::new(), tell_results: Vec::new() });

pub fn install_tracing() {
    let _ = tracing::subscriber::set_global_default(Capture);
}
