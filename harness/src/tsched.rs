//! tsched: OS threads under a controlled scheduler (hook H4).
//!
//! msched schedules tasks; what two OS threads do to rsactor's process-wide state (actor id counter, ask tokens,
//! dead-letter counter, wait-for graph lock) inside one synchronous stretch is invisible to it. Here a handful
//! of real threads run real rsactor calls, and every operation on that state (`rsactor::verif::sync`) is a
//! scheduling point: exactly one registered thread runs at a time, and at each point the running thread picks -
//! from a recorded choice sequence - which thread goes next. A stateless depth-first search over the choice
//! sequences visits every interleaving of those operations (sequentially consistent; CHESS style).
//!
//! Threads never block on anything but the scheduler: bodies only use calls that complete or return Pending
//! without parking (spawn, a send polled once, a runtime driven for a fixed number of ticks).

use std::cell::Cell;
use std::sync::{Arc, Condvar, Mutex, OnceLock};
use std::time::{Duration, Instant};

use rsactor::verif::sync::Point;
use rsactor::{Actor, ActorRef, Message};
use serde::{Deserialize, Serialize};

#[derive(Clone, Copy, Debug, PartialEq)]
enum Stat {
    NotStarted,
    AtPoint,
    /// found a lock taken at step `.0`; may try again once another thread has moved
    Busy(usize),
    Running,
    Finished,
}

#[derive(Default)]
struct St {
    stat: Vec<Stat>,
    current: Option<usize>,
    prefix: Vec<u8>,
    choices: Vec<u8>,
    options: Vec<u8>,
    /// which thread was chosen at each step, and whether it was chosen to retry a lock it had found taken
    chosen: Vec<usize>,
    chosen_retry: Vec<bool>,
    /// option 0 at this step = let the arriving thread go on (so any other option is a preemption)
    cont0: Vec<bool>,
    error: Option<String>,
    deadlock: bool,
    points: u64,
}

struct Sched {
    st: Mutex<St>,
    cv: Condvar,
}

static SCHED: OnceLock<Sched> = OnceLock::new();
thread_local! {
    static TID: Cell<Option<usize>> = const { Cell::new(None) };
    /// the thread has just been rescheduled after finding a lock taken: its next Lock point is that same retry
    static RETRY: Cell<bool> = const { Cell::new(false) };
}

fn sched() -> &'static Sched {
    SCHED.get_or_init(|| Sched { st: Mutex::new(St::default()), cv: Condvar::new() })
}

const HORIZON: usize = 400;

/// When set, tracing events emitted by scheduled threads are scheduling points too (builds with rsactor's
/// `tracing` feature emit debug events inside its send paths and lifecycle code).
static TRACE_POINTS: std::sync::atomic::AtomicBool = std::sync::atomic::AtomicBool::new(false);

pub fn trace_point() {
    if TRACE_POINTS.load(std::sync::atomic::Ordering::Relaxed) {
        hook(Point::Atomic);
    }
}

/// Pick the next thread to run (called with the state locked). `me` = the thread that arrived here, if it can go on.
fn pick_next(st: &mut St, me: Option<usize>) {
    if st.error.is_some() {
        st.current = None;
        return;
    }
    let step = st.choices.len();
    let mut enabled: Vec<usize> = Vec::new();
    for (t, s) in st.stat.iter().enumerate() {
        let ok = match s {
            Stat::AtPoint => true,
            // (another thread's fruitless retry changes nothing: only real progress of somebody else counts,
            // otherwise two waiting threads keep each other spinning while the holder is never picked)
            Stat::Busy(since) => (*since..st.chosen.len()).any(|k| st.chosen[k] != t && !st.chosen_retry[k]),
            _ => false,
        };
        if ok {
            enabled.push(t);
        }
    }
    // canonical order: the arriving thread first (continuing it is not a preemption), then ascending ids
    if let Some(m) = me {
        if let Some(p) = enabled.iter().position(|x| *x == m) {
            enabled.remove(p);
            enabled.insert(0, m);
        }
    }
    if enabled.is_empty() {
        st.current = None;
        if st.stat.iter().any(|s| matches!(s, Stat::Busy(_))) {
            st.deadlock = true;
        }
        return;
    }
    if step >= HORIZON {
        let tail: Vec<String> = (step.saturating_sub(24)..step).map(|k| format!("{}{}", st.chosen[k], if st.chosen_retry[k] { "r" } else { "" })).collect();
        st.error = Some(format!("horizon of {HORIZON} scheduling points exceeded; last threads chosen (r = lock retry): {tail:?}; states {:?}", st.stat));
        st.current = None;
        return;
    }
    let idx = if step < st.prefix.len() { st.prefix[step] as usize } else { 0 };
    if idx >= enabled.len() {
        st.error = Some(format!("replay diverged at step {step}: choice {idx} of {} enabled", enabled.len()));
        st.current = None;
        return;
    }
    st.choices.push(idx as u8);
    st.options.push(enabled.len() as u8);
    st.cont0.push(me.is_some() && Some(enabled[0]) == me);
    st.chosen.push(enabled[idx]);
    st.chosen_retry.push(matches!(st.stat[enabled[idx]], Stat::Busy(_)));
    st.current = Some(enabled[idx]);
}

fn hook(p: Point) {
    let Some(me) = TID.with(|t| t.get()) else { return };
    if p == Point::Lock && RETRY.with(|r| r.replace(false)) {
        return;
    }
    RETRY.with(|r| r.set(p == Point::LockBusy));
    let s = sched();
    let mut st = s.st.lock().unwrap();
    st.points += 1;
    let step = st.choices.len();
    st.stat[me] = if p == Point::LockBusy { Stat::Busy(step) } else { Stat::AtPoint };
    pick_next(&mut st, Some(me));
    s.cv.notify_all();
    while st.current != Some(me) {
        if st.error.is_some() || st.deadlock {
            // the execution is being abandoned: let the thread run to its end unscheduled
            TID.with(|t| t.set(None));
            return;
        }
        st = s.cv.wait(st).unwrap();
    }
    st.stat[me] = Stat::Running;
}

fn thread_begin(me: usize) {
    TID.with(|t| t.set(Some(me)));
    let s = sched();
    let mut st = s.st.lock().unwrap();
    st.stat[me] = Stat::AtPoint;
    s.cv.notify_all();
    while st.current != Some(me) {
        if st.error.is_some() || st.deadlock {
            TID.with(|t| t.set(None));
            return;
        }
        st = s.cv.wait(st).unwrap();
    }
    st.stat[me] = Stat::Running;
}

fn thread_end(me: usize) {
    if TID.with(|t| t.get()).is_none() {
        let s = sched();
        let mut st = s.st.lock().unwrap();
        st.stat[me] = Stat::Finished;
        s.cv.notify_all();
        return;
    }
    TID.with(|t| t.set(None));
    let s = sched();
    let mut st = s.st.lock().unwrap();
    st.stat[me] = Stat::Finished;
    pick_next(&mut st, None);
    s.cv.notify_all();
}

pub struct Exec {
    pub choices: Vec<u8>,
    pub options: Vec<u8>,
    pub cont0: Vec<bool>,
    pub error: Option<String>,
    pub deadlock: bool,
    pub points: u64,
}

/// Run `bodies` (one per thread) under the schedule `prefix` (then choice 0 at every later point).
pub fn run_threads(prefix: &[u8], bodies: Vec<Box<dyn FnOnce() + Send>>) -> Exec {
    let s = sched();
    let n = bodies.len();
    {
        let mut st = s.st.lock().unwrap();
        *st = St::default();
        st.stat = vec![Stat::NotStarted; n];
        st.prefix = prefix.to_vec();
    }
    rsactor::verif::sync::set_hook(Some(hook));
    let mut hs = Vec::new();
    for (i, b) in bodies.into_iter().enumerate() {
        hs.push(std::thread::spawn(move || {
            thread_begin(i);
            let r = std::panic::catch_unwind(std::panic::AssertUnwindSafe(b));
            thread_end(i);
            r.is_ok()
        }));
    }
    let deadline = Instant::now() + Duration::from_secs(20);
    {
        let mut st = s.st.lock().unwrap();
        while st.stat.iter().any(|x| *x == Stat::NotStarted) {
            let (g, _) = s.cv.wait_timeout(st, Duration::from_millis(100)).unwrap();
            st = g;
            if Instant::now() > deadline {
                st.error = Some("threads did not start".into());
                break;
            }
        }
        pick_next(&mut st, None);
        s.cv.notify_all();
        while !st.stat.iter().all(|x| *x == Stat::Finished) {
            let (g, _) = s.cv.wait_timeout(st, Duration::from_millis(100)).unwrap();
            st = g;
            if st.deadlock && st.error.is_none() {
                st.error = Some("every unfinished thread waits for a lock that another descheduled thread holds".into());
                s.cv.notify_all();
            }
            if Instant::now() > deadline && st.error.is_none() {
                st.error = Some("execution did not finish within 20 s (a thread is blocked outside the scheduler)".into());
                s.cv.notify_all();
            }
            if Instant::now() > deadline + Duration::from_secs(10) {
                break;
            }
        }
    }
    let mut body_panicked = false;
    let abandoned = s.st.lock().unwrap().error.is_some();
    for h in hs {
        // (after a watchdog error a thread may be blocked for good - on a lock it took twice, say: it is left behind)
        if abandoned && !h.is_finished() {
            continue;
        }
        match h.join() {
            Ok(true) => {}
            _ => body_panicked = true,
        }
    }
    rsactor::verif::sync::set_hook(None);
    let st = s.st.lock().unwrap();
    let mut error = st.error.clone();
    if body_panicked && error.is_none() {
        error = Some("a thread body panicked".into());
    }
    Exec { choices: st.choices.clone(), options: st.options.clone(), cont0: st.cont0.clone(), error, deadlock: st.deadlock, points: st.points }
}

// ------------------------------------------------------------------ scenarios

struct Tiny;
impl Actor for Tiny {
    type Args = ();
    type Error = String;
    async fn on_start(_: (), _: &ActorRef<Self>) -> Result<Self, String> {
        Ok(Tiny)
    }
}
struct Ping;
impl Message<Ping> for Tiny {
    type Reply = u32;
    async fn handle(&mut self, _: Ping, _: &ActorRef<Self>) -> u32 {
        7
    }
}

/// One actor of an ask ring: `Go` makes it ask its successor.
struct Node {
    next: Option<ActorRef<Node>>,
    asked: Arc<Mutex<Vec<String>>>,
    idx: usize,
}
struct SetNext(ActorRef<Node>);
struct Go;
struct Echo;
impl Actor for Node {
    type Args = (usize, Arc<Mutex<Vec<String>>>);
    type Error = String;
    async fn on_start(a: Self::Args, _: &ActorRef<Self>) -> Result<Self, String> {
        Ok(Node { next: None, asked: a.1, idx: a.0 })
    }
}
impl Message<SetNext> for Node {
    type Reply = ();
    async fn handle(&mut self, m: SetNext, _: &ActorRef<Self>) {
        self.next = Some(m.0);
    }
}
impl Message<Echo> for Node {
    type Reply = u32;
    async fn handle(&mut self, _: Echo, _: &ActorRef<Self>) -> u32 {
        1
    }
}
impl Message<Go> for Node {
    type Reply = ();
    async fn handle(&mut self, _: Go, _: &ActorRef<Self>) {
        let next = self.next.clone().expect("ring not wired");
        self.asked.lock().unwrap().push(format!("{}:ask", self.idx));
        let r = next.ask(Echo).await;
        self.asked.lock().unwrap().push(format!("{}:{}", self.idx, if r.is_ok() { "reply" } else { "error" }));
    }
}

#[derive(Serialize, Deserialize, Clone, Debug)]
pub struct Outcome {
    pub summary: String,
    pub violations: Vec<(String, String)>,
}

pub const SCENARIOS: &[&str] = &[
    "ids-3x2",
    "ids-2x3-mixed",
    "ids-1x70",
    "ids-2x36",
    "dl-3x2",
    "dl-2x3-mixed",
    "dl-2x2-forwarded",
    "ring2",
    "ring3",
    "ring2-plus-bystander",
    "failing-ask-vs-ask",
    "ask-vs-kill",
    "ask-vs-stop",
    "ask-vs-drop",
    "tell-vs-stop",
];

pub fn scenarios_for(prop: &str) -> Vec<&'static str> {
    SCENARIOS
        .iter()
        .copied()
        .filter(|s| match prop {
            "C11" => s.starts_with("ids"),
            "C13" => s.starts_with("dl") && cfg!(feature = "f_testutils"),
            "C14" => s.starts_with("ring") && cfg!(feature = "f_deadlock"),
            "C15" => (s.starts_with("ring") || s.starts_with("failing-ask")) && cfg!(feature = "f_deadlock"),
            "C03" => s.starts_with("ask-vs") && cfg!(feature = "f_tracing"),
            "C01" => (s.starts_with("ask-vs") || s.starts_with("tell-vs")) && cfg!(feature = "f_tracing"),
            _ => true,
        })
        .collect()
}

fn idle_rt() -> tokio::runtime::Runtime {
    tokio::runtime::Builder::new_current_thread().enable_all().build().unwrap()
}

/// Run one execution of `scenario` under `prefix`.
pub fn run_scenario(scenario: &str, prefix: &[u8]) -> (Exec, Outcome) {
    match scenario {
        "ids-3x2" | "ids-2x3-mixed" | "ids-1x70" | "ids-2x36" => run_ids(scenario, prefix),
        "dl-3x2" | "dl-2x3-mixed" | "dl-2x2-forwarded" => run_dl(scenario, prefix),
        "ring2" | "ring3" | "ring2-plus-bystander" => run_ring(scenario, prefix),
        "ask-vs-kill" | "ask-vs-stop" | "ask-vs-drop" | "tell-vs-stop" => run_send_vs_end(scenario, prefix),
        "failing-ask-vs-ask" => run_failing_ask(prefix),
        other => panic!("unknown tsched scenario {other}"),
    }
}

fn run_ids(scenario: &str, prefix: &[u8]) -> (Exec, Outcome) {
    let (threads, per, mixed) = match scenario {
        "ids-3x2" => (3, 2, false),
        "ids-2x3-mixed" => (2, 3, true),
        // long runs of one thread (more than two default mailboxes' worth of spawns), alone and next to another
        "ids-1x70" => (1, 70, true),
        _ => (2, 36, true),
    };
    let ids: Arc<Mutex<Vec<(usize, u64)>>> = Arc::new(Mutex::new(Vec::new()));
    let mut bodies: Vec<Box<dyn FnOnce() + Send>> = Vec::new();
    let mut rts = Vec::new();
    for t in 0..threads {
        let rt = Arc::new(idle_rt());
        rts.push(rt.clone());
        let ids = ids.clone();
        bodies.push(Box::new(move || {
            let _g = rt.enter();
            for k in 0..per {
                let (r, _jh) = if mixed && (k + t) % 2 == 1 { rsactor::spawn_with_mailbox_capacity::<Tiny>((), 2) } else { rsactor::spawn::<Tiny>(()) };
                ids.lock().unwrap().push((t, r.identity().id));
            }
        }));
    }
    let ex = run_threads(prefix, bodies);
    let got = ids.lock().unwrap().clone();
    let mut v = Vec::new();
    let mut all: Vec<u64> = got.iter().map(|x| x.1).collect();
    all.sort_unstable();
    if all.windows(2).any(|w| w[0] == w[1]) {
        let dups: Vec<String> = all
            .windows(2)
            .filter(|w| w[0] == w[1])
            .map(|w| {
                let who: Vec<String> = got.iter().enumerate().filter(|(_, x)| x.1 == w[0]).map(|(k, x)| format!("spawn #{k} (thread {})", x.0)).collect();
                format!("id {} handed to {}", w[0], who.join(" and "))
            })
            .collect();
        let shown = if got.len() > 12 { format!("{} spawns", got.len()) } else { format!("(thread, id) in allocation order: {got:?}") };
        v.push(("C11 ids unique however concurrently spawned".to_string(), format!("{}; {shown}", dups.join("; "))));
    }
    if ex.error.is_none() && got.len() != threads * per {
        v.push(("C11 machinery".to_string(), format!("{} of {} spawns happened", got.len(), threads * per)));
    }
    let base = all.first().copied().unwrap_or(0);
    let rel: Vec<(usize, u64)> = got.iter().map(|(t, i)| (*t, i - base)).collect();
    drop(rts);
    let summary = if rel.len() > 12 { format!("{} ids, thread order {:?}", rel.len(), rel.iter().map(|x| x.0).collect::<Vec<_>>()) } else { format!("{rel:?}") };
    (ex, Outcome { summary, violations: v })
}

#[cfg(feature = "f_testutils")]
fn run_dl(scenario: &str, prefix: &[u8]) -> (Exec, Outcome) {
    use futures::FutureExt;
    let (threads, per, mixed) = match scenario {
        "dl-3x2" => (3, 2, false),
        "dl-2x3-mixed" => (2, 3, true),
        _ => (2, 2, false),
    };
    let forwarded = scenario == "dl-2x2-forwarded";
    let setup = idle_rt();
    let dead = setup.block_on(async {
        let (r, jh) = rsactor::spawn::<Tiny>(());
        r.stop().await.unwrap();
        jh.await.unwrap();
        r
    });
    crate::msched::BT_ACTIVE.store(true, std::sync::atomic::Ordering::SeqCst);
    {
        let mut sink = crate::msched::BT_SINK.lock().unwrap_or_else(|e| e.into_inner());
        *sink = Default::default();
    }
    rsactor::reset_dead_letter_count();
    let failures = Arc::new(std::sync::atomic::AtomicU64::new(0));
    if forwarded {
        // the subscriber forwards every dead letter to a sink actor that has ended as well: that send fails too
        let sink_actor = dead.clone();
        let failures = failures.clone();
        *crate::msched::FORWARD.lock().unwrap_or_else(|e| e.into_inner()) = Some(Arc::new(move || {
            if sink_actor.tell(Ping).now_or_never().map(|x| x.is_err()).unwrap_or(false) {
                failures.fetch_add(1, std::sync::atomic::Ordering::SeqCst);
            }
        }));
    }
    let mut bodies: Vec<Box<dyn FnOnce() + Send>> = Vec::new();
    for t in 0..threads {
        let r = dead.clone();
        let failures = failures.clone();
        bodies.push(Box::new(move || {
            for k in 0..per {
                let failed = match if mixed { (k + t) % 3 } else { 0 } {
                    0 => r.tell(Ping).now_or_never().map(|x| x.is_err()).unwrap_or(false),
                    1 => r.ask(Ping).now_or_never().map(|x| x.is_err()).unwrap_or(false),
                    _ => r.blocking_tell(Ping, None).is_err(),
                };
                if failed {
                    failures.fetch_add(1, std::sync::atomic::Ordering::SeqCst);
                }
            }
        }));
    }
    let ex = run_threads(prefix, bodies);
    *crate::msched::FORWARD.lock().unwrap_or_else(|e| e.into_inner()) = None;
    let expected_failures = (threads * per) as u64 * if forwarded { 2 } else { 1 };
    let counted = rsactor::dead_letter_count();
    let records = crate::msched::BT_SINK.lock().unwrap_or_else(|e| e.into_inner()).dls.len() as u64;
    crate::msched::BT_ACTIVE.store(false, std::sync::atomic::Ordering::SeqCst);
    let f = failures.load(std::sync::atomic::Ordering::SeqCst);
    let mut v = Vec::new();
    if f != expected_failures && ex.error.is_none() {
        v.push(("C13 machinery".to_string(), format!("{f} of {expected_failures} sends failed")));
    }
    if counted != f {
        v.push(("C13 counter equals the number of failures under any concurrency".to_string(), format!("{f} deliveries failed, dead_letter_count() advanced by {counted}")));
    }
    if records != f {
        v.push(("C13 exactly one dead letter per failure".to_string(), format!("{f} deliveries failed, {records} records were emitted")));
    }
    (ex, Outcome { summary: format!("failures={f} counted={counted} records={records}"), violations: v })
}

#[cfg(not(feature = "f_testutils"))]
fn run_dl(_scenario: &str, _prefix: &[u8]) -> (Exec, Outcome) {
    panic!("the dl scenarios need the f_testutils build");
}

/// N actors, each on its own thread and current-thread runtime, each asking its successor: in every interleaving
/// of the graph operations exactly one ask - the one that closes the cycle - panics, and nobody is left waiting.
fn run_ring(scenario: &str, prefix: &[u8]) -> (Exec, Outcome) {
    use futures::FutureExt;
    let n = if scenario == "ring3" { 3 } else { 2 };
    let bystander = scenario == "ring2-plus-bystander";
    let total = n + bystander as usize;
    let log: Arc<Mutex<Vec<String>>> = Arc::new(Mutex::new(Vec::new()));
    let rts: Vec<Arc<tokio::runtime::Runtime>> = (0..total).map(|_| Arc::new(idle_rt())).collect();
    let mut refs = Vec::new();
    let mut jhs = Vec::new();
    for (i, rt) in rts.iter().enumerate() {
        let _g = rt.enter();
        let (r, jh) = rsactor::spawn::<Node>((i, log.clone()));
        refs.push(r);
        jhs.push(jh);
    }
    // wiring and triggers are queued before the controlled phase: SetNext then Go (the bystander asks ring member 0
    // and is asked by nobody)
    for i in 0..total {
        let next = if i < n { refs[(i + 1) % n].clone() } else { refs[0].clone() };
        refs[i].tell(SetNext(next)).now_or_never().expect("free mailbox").unwrap();
        refs[i].tell(Go).now_or_never().expect("free mailbox").unwrap();
    }
    let mut bodies: Vec<Box<dyn FnOnce() + Send>> = Vec::new();
    for rt in rts.iter() {
        let rt = rt.clone();
        bodies.push(Box::new(move || {
            rt.block_on(async {
                for _ in 0..12 {
                    tokio::task::yield_now().await;
                }
            });
        }));
    }
    let ex = run_threads(prefix, bodies);
    // settle: drive every runtime in turn, unscheduled, until nothing changes any more
    for _ in 0..4 {
        for rt in rts.iter() {
            rt.block_on(async {
                for _ in 0..12 {
                    tokio::task::yield_now().await;
                }
            });
        }
    }
    let mut panics: Vec<(usize, String)> = Vec::new();
    let mut ended = vec![false; total];
    for (i, jh) in jhs.iter_mut().enumerate() {
        if let Some(r) = rts[i].block_on(async { jh.now_or_never() }) {
            ended[i] = true;
            if let Err(e) = r {
                if e.is_panic() {
                    let p = e.into_panic();
                    let msg = p.downcast_ref::<String>().cloned().or_else(|| p.downcast_ref::<&str>().map(|s| s.to_string())).unwrap_or_default();
                    panics.push((i, msg));
                }
            }
        }
    }
    let l = log.lock().unwrap().clone();
    let asked = (0..total).filter(|i| l.iter().any(|x| *x == format!("{i}:ask"))).count();
    let finished: Vec<usize> = (0..total).filter(|i| l.iter().any(|x| x.starts_with(&format!("{i}:")) && !x.ends_with(":ask"))).collect();
    let mut v = Vec::new();
    let dl_panics: Vec<&(usize, String)> = panics.iter().filter(|(_, m)| m.starts_with("Deadlock detected")).collect();
    if ex.error.is_none() {
        if asked != total {
            v.push(("C14 machinery".to_string(), format!("only {asked} of {total} handlers issued their ask: {l:?}")));
        }
        if dl_panics.is_empty() {
            v.push(("C14 cycle-closing ask panics".to_string(), format!("every member of the ring asked its successor and nobody panicked; log {l:?}")));
        }
        if dl_panics.len() > 1 {
            v.push(("C15 panic only on a real cycle".to_string(), format!("{} asks panicked in a ring that needs one victim: {:?}", dl_panics.len(), dl_panics.iter().map(|(i, _)| *i).collect::<Vec<_>>())));
        }
        for (i, m) in &dl_panics {
            if *i >= n {
                v.push(("C15 panic only on a real cycle".to_string(), format!("the bystander (actor {i}), which nobody asks, panicked: {m}")));
            }
            for k in 0..n {
                if !m.contains(&format!("(#{})", refs[k].identity().id)) {
                    v.push(("C14 message names the cycle".to_string(), format!("{m:?} does not name ring member {k} (id {})", refs[k].identity().id)));
                }
            }
        }
        // nobody waits forever: every asker that did not panic got a reply or an error
        for i in 0..total {
            let panicked = panics.iter().any(|(p, _)| *p == i);
            if !panicked && !finished.contains(&i) {
                v.push(("C14 nobody waits forever".to_string(), format!("actor {i} is still waiting for its ask; log {l:?}, panics {:?}", panics.iter().map(|p| p.0).collect::<Vec<_>>())));
            }
        }
        #[cfg(feature = "f_deadlock")]
        {
            let live: Vec<u64> = refs.iter().map(|r| r.identity().id).collect();
            let edges: Vec<(u64, u64)> = rsactor::verif::wait_for_edges().into_iter().filter(|(a, _)| live.contains(a)).collect();
            if !edges.is_empty() {
                v.push(("C15 graph empty once every ask has finished".to_string(), format!("edges left: {edges:?}")));
            }
        }
    }
    let victims: Vec<usize> = dl_panics.iter().map(|(i, _)| *i).collect();
    drop(refs);
    drop(jhs);
    for rt in rts {
        if let Ok(rt) = Arc::try_unwrap(rt) {
            rt.shutdown_background();
        }
    }
    (ex, Outcome { summary: format!("victims={victims:?} log={l:?}"), violations: v })
}

/// Two unrelated asks on two threads: X asks Y (answered), V asks an actor that has already ended (fails at once).
/// Whatever the interleaving of their graph operations - tracing events (the dead-letter record of the failing ask)
/// are scheduling points too - both edges are gone once both asks have finished.
fn run_failing_ask(prefix: &[u8]) -> (Exec, Outcome) {
    use futures::FutureExt;
    let log: Arc<Mutex<Vec<String>>> = Arc::new(Mutex::new(Vec::new()));
    let rt_a = Arc::new(idle_rt());
    let rt_b = Arc::new(idle_rt());
    let spawn_on = |rt: &tokio::runtime::Runtime, i: usize| {
        let _g = rt.enter();
        rsactor::spawn::<Node>((i, log.clone()))
    };
    let (x, _jx) = spawn_on(&rt_a, 0);
    let (y, _jy) = spawn_on(&rt_a, 1);
    let (v, _jv) = spawn_on(&rt_b, 2);
    let (d, mut jd) = spawn_on(&rt_b, 3);
    let tick = |rt: &tokio::runtime::Runtime, n: usize| {
        rt.block_on(async {
            for _ in 0..n {
                tokio::task::yield_now().await;
            }
        })
    };
    tick(&rt_b, 4);
    d.stop().now_or_never().expect("free mailbox").unwrap();
    tick(&rt_b, 6);
    let d_ended = rt_b.block_on(async { (&mut jd).now_or_never() }).is_some();
    x.tell(SetNext(y.clone())).now_or_never().expect("free mailbox").unwrap();
    v.tell(SetNext(d.clone())).now_or_never().expect("free mailbox").unwrap();
    x.tell(Go).now_or_never().expect("free mailbox").unwrap();
    v.tell(Go).now_or_never().expect("free mailbox").unwrap();
    let mut bodies: Vec<Box<dyn FnOnce() + Send>> = Vec::new();
    for rt in [rt_a.clone(), rt_b.clone()] {
        bodies.push(Box::new(move || {
            rt.block_on(async {
                for _ in 0..12 {
                    tokio::task::yield_now().await;
                }
            });
        }));
    }
    TRACE_POINTS.store(true, std::sync::atomic::Ordering::SeqCst);
    let ex = run_threads(prefix, bodies);
    TRACE_POINTS.store(false, std::sync::atomic::Ordering::SeqCst);
    for _ in 0..4 {
        tick(&rt_a, 12);
        tick(&rt_b, 12);
    }
    let l = log.lock().unwrap().clone();
    let mut v_out = Vec::new();
    if ex.error.is_none() {
        if !d_ended {
            v_out.push(("C15 machinery".to_string(), "the actor that was to be dead had not ended".to_string()));
        }
        let done = l.iter().any(|e| e == "0:reply") && l.iter().any(|e| e == "2:error");
        if !done {
            v_out.push(("C15 machinery".to_string(), format!("expected X to be answered and V's ask to fail; log {l:?}")));
        }
        #[cfg(feature = "f_deadlock")]
        {
            let mine: Vec<u64> = [&x, &y, &v, &d].iter().map(|r| r.identity().id).collect();
            let edges: Vec<(u64, u64)> = rsactor::verif::wait_for_edges().into_iter().filter(|(a, _)| mine.contains(a)).collect();
            if done && !edges.is_empty() {
                v_out.push(("C15 graph empty once every ask has finished".to_string(), format!("both asks have finished (log {l:?}), edges left: {edges:?} (ids: X {} Y {} V {} dead {})", mine[0], mine[1], mine[2], mine[3])));
            }
        }
    }
    drop((x, y, v, d));
    for rt in [rt_a, rt_b] {
        if let Ok(rt) = Arc::try_unwrap(rt) {
            rt.shutdown_background();
        }
    }
    (ex, Outcome { summary: format!("log={l:?}"), violations: v_out })
}

/// One thread sends (ask or tell) from its own runtime while another thread ends the actor (kill, stop, or the
/// last other reference dropped) and drives the actor's runtime; tracing events inside rsactor's send path and
/// lifecycle are scheduling points (tracing build), so the end can fall between any two of the sender's steps.
fn run_send_vs_end(scenario: &str, prefix: &[u8]) -> (Exec, Outcome) {
    use futures::FutureExt;
    struct Served {
        handled: Arc<Mutex<Vec<String>>>,
    }
    impl Actor for Served {
        type Args = Arc<Mutex<Vec<String>>>;
        type Error = String;
        async fn on_start(a: Self::Args, _: &ActorRef<Self>) -> Result<Self, String> {
            Ok(Served { handled: a })
        }
        async fn on_stop(&mut self, _: &rsactor::ActorWeak<Self>, killed: bool) -> Result<(), String> {
            self.handled.lock().unwrap().push(format!("on_stop({killed})"));
            Ok(())
        }
    }
    impl Message<Ping> for Served {
        type Reply = u32;
        async fn handle(&mut self, _: Ping, _: &ActorRef<Self>) -> u32 {
            self.handled.lock().unwrap().push("handled".into());
            7
        }
    }
    let log: Arc<Mutex<Vec<String>>> = Arc::new(Mutex::new(Vec::new()));
    let rt_actor = Arc::new(idle_rt());
    let rt_sender = Arc::new(idle_rt());
    let (aref, mut jh) = {
        let _g = rt_actor.enter();
        rsactor::spawn_with_mailbox_capacity::<Served>(log.clone(), 2)
    };
    // the actor starts up before the controlled phase
    rt_actor.block_on(async {
        for _ in 0..4 {
            tokio::task::yield_now().await;
        }
    });
    let result: Arc<Mutex<Option<String>>> = Arc::new(Mutex::new(None));
    let is_ask = scenario.starts_with("ask");
    let sender_ref = aref.clone();
    let mut bodies: Vec<Box<dyn FnOnce() + Send>> = Vec::new();
    {
        let rt = rt_sender.clone();
        let result = result.clone();
        bodies.push(Box::new(move || {
            let r = sender_ref;
            rt.spawn(async move {
                let out = if is_ask {
                    match r.ask(Ping).await {
                        Ok(v) => format!("Ok({v})"),
                        Err(e) => format!("Err({})", err_kind(&e)),
                    }
                } else {
                    match r.tell(Ping).await {
                        Ok(()) => "Ok".to_string(),
                        Err(e) => format!("Err({})", err_kind(&e)),
                    }
                };
                *result.lock().unwrap() = Some(out);
            });
            rt.block_on(async {
                for _ in 0..8 {
                    tokio::task::yield_now().await;
                }
            });
        }));
    }
    {
        let rt = rt_actor.clone();
        let how = scenario.to_string();
        let ender = aref;
        bodies.push(Box::new(move || {
            if how.ends_with("kill") {
                let _ = ender.kill();
            } else if how.ends_with("stop") {
                let _ = ender.stop().now_or_never();
            }
            drop(ender);
            rt.block_on(async {
                for _ in 0..8 {
                    tokio::task::yield_now().await;
                }
            });
        }));
    }
    TRACE_POINTS.store(true, std::sync::atomic::Ordering::SeqCst);
    let ex = run_threads(prefix, bodies);
    TRACE_POINTS.store(false, std::sync::atomic::Ordering::SeqCst);
    // settle, unscheduled
    for _ in 0..4 {
        for rt in [&rt_actor, &rt_sender] {
            rt.block_on(async {
                for _ in 0..8 {
                    tokio::task::yield_now().await;
                }
            });
        }
    }
    let ended = rt_actor.block_on(async { (&mut jh).now_or_never() }).is_some();
    let res = result.lock().unwrap().clone();
    let l = log.lock().unwrap().clone();
    let handled = l.iter().any(|x| x == "handled");
    let mut v = Vec::new();
    if ex.error.is_none() {
        match &res {
            None => {
                if ended {
                    v.push((
                        if is_ask { "C03 no ask is pending on an ended actor" } else { "C01 a send to an ended actor returns" }.to_string(),
                        format!("the actor has ended (log {l:?}) and the sender is still waiting"),
                    ));
                } else if scenario.ends_with("drop") {
                    // the sender's own reference keeps the actor alive only while the send is pending: once the
                    // message is in, it must be handled and answered
                    v.push(("C03 every ask completes".to_string(), format!("the actor is alive, the message was sent, yet the sender is still waiting; log {l:?}")));
                } else {
                    v.push(("C07 ends when stopped".to_string(), format!("the actor was told to end and is still running; log {l:?}")));
                }
            }
            Some(r) => {
                let rejected = r == "Err(Send)" || (!is_ask && r.starts_with("Err"));
                if rejected && handled {
                    v.push(("C01 a failed send is never handled".to_string(), format!("the sender got {r} but the handler ran")));
                }
                if r == "Ok(7)" && !handled {
                    v.push(("C03 reply integrity".to_string(), format!("the sender got {r} but the handler never ran")));
                }
                if !is_ask && r == "Ok" && !handled && scenario.ends_with("stop") && ended {
                    // a tell accepted ahead of ... no: the stop marker may have been queued first; then the tell is
                    // accepted behind it and legitimately dropped at the end. Nothing to conclude.
                }
                if scenario.ends_with("drop") && r != "Ok(7)" {
                    v.push(("C07 a held reference keeps the actor serving".to_string(), format!("the sender held a strong reference throughout, its ask got {r}")));
                }
            }
        }
    }
    drop(jh);
    for rt in [rt_actor, rt_sender] {
        if let Ok(rt) = Arc::try_unwrap(rt) {
            rt.shutdown_background();
        }
    }
    (ex, Outcome { summary: format!("result={res:?} ended={ended} log={l:?}"), violations: v })
}

fn err_kind(e: &rsactor::Error) -> &'static str {
    match e {
        rsactor::Error::Send { .. } => "Send",
        rsactor::Error::Receive { .. } => "Receive",
        rsactor::Error::Timeout { .. } => "Timeout",
        _ => "Other",
    }
}

// ------------------------------------------------------------------ exploration

#[derive(Serialize, Deserialize, Clone, Debug)]
pub struct Found {
    pub scenario: String,
    pub schedule: Vec<u8>,
    pub violations: Vec<(String, String)>,
    pub summary: String,
    pub recurred: bool,
}

#[derive(Serialize, Deserialize, Clone, Debug, Default)]
pub struct Report {
    pub scenario: String,
    pub executions: u64,
    pub points: u64,
    pub max_depth: usize,
    pub distinct_outcomes: usize,
    pub exhaustive: bool,
    /// preemption bound (None = every interleaving)
    pub bound: Option<u32>,
    pub machinery_error: Option<String>,
    pub found: Vec<Found>,
}

/// Preemption bound per scenario: the atomics-only scenarios are explored without one.
pub fn bound_for(scenario: &str, thorough: bool) -> Option<u32> {
    if scenario.starts_with("ask-vs") || scenario.starts_with("tell-vs") {
        Some(if thorough { 5 } else { 3 })
    } else if scenario == "ids-2x36" {
        Some(if thorough { 2 } else { 1 })
    } else {
        None
    }
}

pub fn explore(scenario: &str, cap: u64, bound: Option<u32>) -> Report {
    let mut rep = Report { scenario: scenario.to_string(), exhaustive: true, bound, ..Default::default() };
    let mut distinct: std::collections::HashSet<String> = Default::default();
    let mut stack: Vec<Vec<u8>> = vec![vec![]];
    while let Some(prefix) = stack.pop() {
        if rep.executions >= cap {
            rep.exhaustive = false;
            break;
        }
        let (ex, out) = run_scenario(scenario, &prefix);
        rep.executions += 1;
        rep.points += ex.points;
        rep.max_depth = rep.max_depth.max(ex.choices.len());
        if let Some(e) = &ex.error {
            if rep.machinery_error.is_none() {
                rep.machinery_error = Some(format!("schedule {:?}: {e}", ex.choices));
            }
            break;
        }
        distinct.insert(out.summary.clone());
        if !out.violations.is_empty() && rep.found.len() < 3 {
            // the same schedule must fail again before it is believed
            let (ex2, out2) = run_scenario(scenario, &ex.choices);
            let recurred = ex2.error.is_none() && out2.violations.iter().map(|v| &v.0).collect::<Vec<_>>() == out.violations.iter().map(|v| &v.0).collect::<Vec<_>>();
            rep.found.push(Found { scenario: scenario.to_string(), schedule: ex.choices.clone(), violations: out.violations.clone(), summary: out.summary.clone(), recurred });
        }
        for i in (prefix.len()..ex.choices.len()).rev() {
            // preemptions spent before step i (the prefix is part of this execution's choices)
            let spent = (0..i).filter(|k| ex.cont0[*k] && ex.choices[*k] != 0).count() as u32;
            if let Some(b) = bound {
                if ex.cont0[i] && spent + 1 > b {
                    continue;
                }
            }
            for alt in (1..ex.options[i]).rev() {
                let mut p = ex.choices[..i].to_vec();
                p.push(alt);
                stack.push(p);
            }
        }
    }
    rep.distinct_outcomes = distinct.len();
    rep
}
