//! Scenario grammar (the input alphabet) and trace events.

use serde::{Deserialize, Serialize};

pub const SELF_SLOT: u8 = 99;
pub const REG_BASE: u8 = 100; // slot 100+a = registry handle of actor a (cloned for the op)

#[derive(Serialize, Deserialize, Clone, Debug, PartialEq, Eq, Hash)]
pub enum Outcome {
    Ok,
    OkTrue,
    OkFalse,
    Err(u32),
    Panic(u32),
    Pend,
}

#[derive(Serialize, Deserialize, Clone, Debug, PartialEq, Eq, Hash)]
pub struct HookSpec {
    pub entry_yield: bool,
    pub steps: Vec<Step>,
    pub out: Outcome,
    /// not under the controller: polled whenever tokio polls the enclosing task (wake-ups are real)
    #[serde(default)]
    pub free: bool,
}

impl HookSpec {
    pub fn ok() -> Self {
        HookSpec { entry_yield: true, steps: vec![], out: Outcome::Ok, free: false }
    }
    pub fn quick_ok() -> Self {
        HookSpec { entry_yield: false, steps: vec![], out: Outcome::Ok, free: false }
    }
    pub fn with(steps: Vec<Step>, out: Outcome) -> Self {
        HookSpec { entry_yield: true, steps, out, free: false }
    }
}

#[derive(Serialize, Deserialize, Clone, Debug, PartialEq, Eq, Hash)]
pub struct ActorSpec {
    /// None = rsactor::spawn (default capacity)
    pub cap: Option<usize>,
    pub on_start: HookSpec,
    /// scripted invocations of on_run, in order; afterwards on_run returns Ok(false) at once
    pub on_run: Vec<HookSpec>,
    pub on_stop: HookSpec,
    /// strong handles placed in the actor's state at spawn: (slot, actor index)
    pub slots: Vec<(u8, usize)>,
    /// spawned by the controller before the clients start (else by a Spawn step)
    pub at_start: bool,
    /// handlers run uncontrolled (no scheduling point at their entry): a backlog is then handled within one poll
    /// of the actor task, as far as tokio's cooperative budget lets it
    #[serde(default)]
    pub free_handlers: bool,
}

impl ActorSpec {
    pub fn plain(cap: usize) -> Self {
        ActorSpec {
            cap: Some(cap),
            on_start: HookSpec::quick_ok(),
            on_run: vec![],
            on_stop: HookSpec::quick_ok(),
            slots: vec![],
            at_start: true,
            free_handlers: false,
        }
    }
}

#[derive(Serialize, Deserialize, Clone, Debug, PartialEq, Eq, Hash)]
pub enum MsgKind {
    /// Reply = Rep{id,seq,actor}
    M1,
    /// Reply = String
    M2,
    /// Reply = JoinHandle<u32>
    MJ,
    /// Reply = Result<u32,String> with a hand written on_tell_result
    MR,
}

#[derive(Serialize, Deserialize, Clone, Debug, PartialEq, Eq, Hash)]
pub enum TaskEnd {
    Value,
    Panic,
    Abort,
}

#[derive(Serialize, Deserialize, Clone, Debug, PartialEq, Eq, Hash)]
pub struct MsgSpec {
    pub id: u32,
    pub kind: MsgKind,
    pub entry_yield: bool,
    pub steps: Vec<Step>,
    /// Outcome::Ok = reply normally, Outcome::Panic = panic at the end of the body, Err(t) for MR = reply Err
    pub out: Outcome,
    /// sender moves the handle in this slot into the message; the handler stores it in `to` (or drops it)
    pub carry: Option<(u8, Option<u8>)>,
    /// for MJ: how the spawned task ends, and its body
    pub task_end: TaskEnd,
}

impl MsgSpec {
    pub fn m1(id: u32) -> Self {
        MsgSpec {
            id,
            kind: MsgKind::M1,
            entry_yield: true,
            steps: vec![],
            out: Outcome::Ok,
            carry: None,
            task_end: TaskEnd::Value,
        }
    }
    pub fn quick(id: u32) -> Self {
        let mut m = Self::m1(id);
        m.entry_yield = false;
        m
    }
    pub fn kind(mut self, k: MsgKind) -> Self {
        self.kind = k;
        self
    }
    pub fn steps(mut self, s: Vec<Step>) -> Self {
        self.steps = s;
        self
    }
    pub fn out(mut self, o: Outcome) -> Self {
        self.out = o;
        self
    }
}

#[derive(Serialize, Deserialize, Clone, Copy, Debug, PartialEq, Eq, Hash)]
pub enum SendKind {
    Tell,
    Ask,
    TellTO(u32),
    AskTO(u32),
    AskJoin,
}

/// Timeout values of the scenario grammar: milliseconds; u32::MAX = the largest Duration there is; values from
/// 1_000_000 up encode microseconds (value - 1_000_000), for timeouts that are not whole milliseconds.
pub const TO_MICROS_BASE: u32 = 1_000_000;
pub fn timeout_duration(t: u32) -> std::time::Duration {
    if t == u32::MAX {
        std::time::Duration::MAX
    } else if t >= TO_MICROS_BASE {
        std::time::Duration::from_micros((t - TO_MICROS_BASE) as u64)
    } else {
        std::time::Duration::from_millis(t as u64)
    }
}
/// the first whole millisecond at or after the deadline (the virtual clock moves in whole milliseconds)
pub fn timeout_ms_ceil(t: u32) -> u64 {
    if t >= TO_MICROS_BASE && t != u32::MAX {
        ((t - TO_MICROS_BASE) as u64).div_ceil(1000)
    } else {
        t as u64
    }
}

impl SendKind {
    pub fn is_ask(&self) -> bool {
        matches!(self, SendKind::Ask | SendKind::AskTO(_) | SendKind::AskJoin)
    }
    pub fn timeout(&self) -> Option<u32> {
        match self {
            SendKind::TellTO(t) | SendKind::AskTO(t) => Some(*t),
            _ => None,
        }
    }
}

#[derive(Serialize, Deserialize, Clone, Copy, Debug, PartialEq, Eq, Hash)]
pub enum EraseKind {
    Tell,
    Ask,
    Ctl,
}

#[derive(Serialize, Deserialize, Clone, Debug, PartialEq, Eq, Hash)]
pub enum Step {
    Yield,
    Sleep(u32),
    Park,
    Busy(u32),
    Mark(u32),
    /// wait for / raise one of the harness-global signals (tokio Notify: a raised signal is remembered)
    WaitSig(u8),
    Signal(u8),
    Send { kind: SendKind, slot: u8, msg: MsgSpec },
    /// create the future of a send without polling it, run `other` to completion, then await the
    /// first future (or drop it unpolled): what the losing branch of a select! looks like
    SendThen { kind: SendKind, slot: u8, msg: MsgSpec, other: Box<Step>, drop_first: bool },
    /// two asks issued by one hook and awaited together (futures::join!)
    JoinAsk { slot_a: u8, msg_a: MsgSpec, slot_b: u8, msg_b: MsgSpec },
    /// an ask joined with a branch that yields once and then panics (the ask future is destroyed by unwinding)
    JoinAskPanic { slot: u8, msg: MsgSpec },
    /// the executor is kept busy for this long: the clock moves on although other tasks are ready to run
    Stall(u32),
    /// n plain asks in a row to the actor in `slot`, answered by a handler that leaves no trace: a long history in
    /// front of the scenario proper
    WarmAsks { slot: u8, n: u32 },
    /// the ask is made here (through an erased handler the request future is created here), but it is a detached
    /// task - not the running hook - that waits for the reply
    SpawnAsk { slot: u8, msg: MsgSpec },
    Stop(u8),
    /// stop() wrapped in a caller-side timeout: the stop future is dropped if it has not completed after `ms`
    StopCancel { slot: u8, ms: u32 },
    Kill(u8),
    CloneH { from: u8, to: u8 },
    DropH(u8),
    Downgrade { from: u8, to: u8 },
    Upgrade { from: u8, to: u8 },
    /// convert the handle in `from` (strong or weak, typed) into a boxed trait object in `to`;
    /// owned=true uses From<ActorRef>/From<ActorWeak> (consumes `from`), false uses From<&_>
    Erase { from: u8, to: u8, kind: EraseKind, owned: bool },
    CloneBoxed { from: u8, to: u8 },
    /// TellHandler/AskHandler::downgrade, ActorControl::downgrade on boxed handles
    IsAlive(u8),
    Ident(u8),
    Metrics(u8),
    Spawn { actor: usize, to: u8 },
    Panic(u32),
    /// the next step follows without a scheduling point (client programs with auto_yield)
    Fuse,
}

#[derive(Serialize, Deserialize, Clone, Debug, PartialEq, Eq, Hash)]
pub struct Program {
    /// initial strong handles: (slot, actor index)
    pub slots: Vec<(u8, usize)>,
    pub steps: Vec<Step>,
    /// implicit scheduling point before every step but the first (unless preceded by Fuse)
    pub auto_yield: bool,
    /// not under the controller: an ordinary tokio task
    #[serde(default)]
    pub free: bool,
}

impl Program {
    pub fn new(slots: Vec<(u8, usize)>, steps: Vec<Step>) -> Self {
        Program { slots, steps, auto_yield: true, free: false }
    }
}

#[derive(Serialize, Deserialize, Clone, Debug, PartialEq, Eq, Hash)]
pub struct Scenario {
    pub name: String,
    pub actors: Vec<ActorSpec>,
    pub clients: Vec<Program>,
    /// the controller keeps one strong handle per actor for the whole run (REG slots)
    pub registry: bool,
    /// tokio rng seed (matters only for a select! without `biased`)
    pub seed: u64,
    /// free-form flags interpreted by the property's monitor
    pub tags: Vec<String>,
}

impl Scenario {
    pub fn has_tag(&self, t: &str) -> bool {
        self.tags.iter().any(|x| x == t)
    }
}

// ------------------------------------------------------------------ events

#[derive(Serialize, Deserialize, Clone, Copy, Debug, PartialEq, Eq, Hash, PartialOrd, Ord)]
pub enum Hook {
    OnStart,
    Handler,
    OnRun,
    OnStop,
    Task,
}

#[derive(Serialize, Deserialize, Clone, Debug, PartialEq, Eq, Hash)]
pub enum ErrK {
    Send,
    Receive,
    Timeout,
    Downcast,
    Runtime,
    MailboxCapacity,
    JoinPanic,
    JoinCancelled,
}

#[derive(Serialize, Deserialize, Clone, Debug, PartialEq, Eq, Hash)]
pub enum Res {
    Ok,
    Rep { id: u32, seq: u32, actor: usize },
    Str(String),
    Join(u32),
    RepR(Result<u32, String>),
    Err { k: ErrK, retryable: bool, ident_ok: bool },
    Bool(bool),
    Ident { actor: Option<usize>, raw: u64, type_name: String },
    Upgraded(bool),
    Metrics { count: u64, avg_ns: u64, max_ns: u64, consistent: bool },
    NoHandle,
    Spawned(usize),
    Unit,
}

#[derive(Serialize, Deserialize, Clone, Debug, PartialEq, Eq, Hash)]
pub enum OpK {
    Send(SendKind),
    Stop,
    Kill,
    CloneH,
    DropH,
    Downgrade,
    Upgrade,
    Erase,
    CloneBoxed,
    IsAlive,
    Ident,
    Metrics,
    Spawn,
}

#[derive(Serialize, Deserialize, Clone, Debug, PartialEq, Eq, Hash)]
pub struct JoinSummary {
    /// "Completed" | "Failed" | "Panic" | "Cancelled"
    pub variant: String,
    pub phase: Option<String>,
    pub killed: Option<bool>,
    pub error: Option<u32>,
    pub has_actor: bool,
    /// the actor's own log of the hooks it ran
    pub actor_log: Vec<String>,
    /// how many times the framework evaluated `actor.on_run(..)` (called the method, polled or not)
    #[serde(default)]
    pub run_evals: u32,
    pub panic_msg: Option<String>,
    /// accessor laws held on this value
    pub laws_ok: bool,
    pub laws_detail: String,
}

#[derive(Serialize, Deserialize, Clone, Debug, PartialEq, Eq, Hash)]
pub enum EvK {
    OpStart { op: u32, k: OpK, target: Option<usize>, msg: Option<u32>, slot: u8, route: String },
    OpEnd { op: u32, res: Res },
    Called { actor: usize, hook: Hook, msg: Option<u32>, killed: Option<bool>, inv: u32 },
    Exit { actor: usize, hook: Hook, msg: Option<u32>, out: String },
    Mark { actor: Option<usize>, hook: Option<Hook>, msg: Option<u32>, k: u32, inv: u32 },
    Cancelled { actor: usize, hook: Hook, inv: u32 },
    TellResult { actor: usize, msg: u32, val: String },
    Dl { raw_id: u64, actor_type: String, msg_type: String, reason: String, op: String },
    Log { level: String, msg: String },
    Panic { msg: String, loc: String },
    Joined { actor: usize, summary: JoinSummary },
    Graph { edges: Vec<(i64, i64)> },
    /// snapshot at a quiescent point: status per owner ('R','B','D'), mailbox (len,cap) per actor
    Quiet { status: String, mail: Vec<(i32, i32)> },
    Advance { to: u64 },
    Drain,
    /// handles dropped by the controller (harvested actor state, registry)
    Harvest { actor: usize },
    Probe { actor: usize, res: Res },
    DlCount { delta: u64 },
    Spawned { actor: usize, raw: u64, cap_reported: i32 },
    SpawnPanic { actor: usize, msg: String },
    LockPoisoned { poisoned: bool },
    /// hook code was polled more than `polls` times without the runtime ever going idle
    Livelock { polls: u64 },
    /// a handle slot changed: what it now holds ("none" = emptied) and which actor it refers to
    Slot { holder: Holder, slot: u8, kind: String, target: Option<usize> },
}

#[derive(Serialize, Deserialize, Clone, Copy, Debug, PartialEq, Eq, Hash, PartialOrd, Ord)]
pub enum Holder {
    Client(usize),
    Actor(usize),
    Task(usize),
    Registry,
}

#[derive(Serialize, Deserialize, Clone, Debug, PartialEq, Eq, Hash)]
pub struct Ev {
    pub t: u64,
    pub owner: Option<usize>,
    pub k: EvK,
}
