//! Plain exhaustive loops over small value domains (accessor laws of ActorResult, Error::is_retryable,
//! the wait-for walk).

use rsactor::{ActorResult, FailurePhase};

use crate::world::SA;

fn phase_of(r: &ActorResult<SA>) -> Option<FailurePhase> {
    match r {
        ActorResult::Completed { .. } => None,
        ActorResult::Failed { phase, .. } => Some(*phase),
    }
}

/// Every query method of `ActorResult` compared with its definition in terms of the variant's fields.
pub fn check_result_laws(r: &ActorResult<SA>) -> (bool, String) {
    let mut bad: Vec<String> = Vec::new();
    let (completed, killed, has_actor, err) = match r {
        ActorResult::Completed { killed, .. } => (true, *killed, true, None),
        ActorResult::Failed { actor, error, killed, .. } => (false, *killed, actor.is_some(), Some(error.0)),
    };
    let phase = phase_of(r);
    let mut law = |name: &str, got: bool, want: bool| {
        if got != want {
            bad.push(format!("{name}: got {got}, want {want}"));
        }
    };
    law("is_completed", r.is_completed(), completed);
    law("is_failed", r.is_failed(), !completed);
    law("was_killed", r.was_killed(), killed);
    law("stopped_normally", r.stopped_normally(), completed && !killed);
    law("is_startup_failed", r.is_startup_failed(), phase == Some(FailurePhase::OnStart));
    law(
        "is_runtime_failed",
        r.is_runtime_failed(),
        matches!(phase, Some(FailurePhase::OnRun) | Some(FailurePhase::OnRunThenOnStop)),
    );
    law("is_stop_failed", r.is_stop_failed(), phase == Some(FailurePhase::OnStop));
    law("is_cleanup_failed", r.is_cleanup_failed(), phase == Some(FailurePhase::OnRunThenOnStop));
    law("has_actor", r.has_actor(), has_actor);
    law("actor().is_some", r.actor().is_some(), has_actor);
    law("error().is_some", r.error().is_some(), !completed);
    if r.error().map(|e| e.0) != err {
        bad.push("error(): wrong value".into());
    }
    (bad.is_empty(), bad.join("; "))
}

// ------------------------------------------------------------------ stand-alone enumerations (rsv valenum)

fn dummy_actor() -> SA {
    SA {
        idx: 0,
        owner: 0,
        spec: std::sync::Arc::new(crate::model::ActorSpec::plain(1)),
        slots: Vec::new(),
        log: vec!["x".into()],
        seq: 0,
        run_inv: 0,
        run_evals: 0,
    }
}

/// All shapes of ActorResult: Completed x killed, Failed x phase x killed x actor present.
pub fn enum_actor_results() -> (u64, Vec<String>) {
    use crate::world::TagErr;
    let mut n = 0;
    let mut bad = Vec::new();
    for killed in [false, true] {
        let r: ActorResult<SA> = ActorResult::Completed { actor: dummy_actor(), killed };
        n += 1;
        let (ok, d) = check_result_laws(&r);
        if !ok {
            bad.push(format!("Completed{{killed:{killed}}}: {d}"));
        }
        // conversions
        let t: (Option<SA>, Option<TagErr>) = ActorResult::Completed { actor: dummy_actor(), killed }.into();
        if t.0.is_none() || t.1.is_some() {
            bad.push(format!("Completed{{killed:{killed}}}: tuple conversion"));
        }
        if (ActorResult::Completed { actor: dummy_actor(), killed }).to_result().is_err() {
            bad.push("Completed: to_result".into());
        }
        if (ActorResult::<SA>::Completed { actor: dummy_actor(), killed }).into_error().is_some() {
            bad.push("Completed: into_error".into());
        }
        if (ActorResult::<SA>::Completed { actor: dummy_actor(), killed }).into_actor().is_none() {
            bad.push("Completed: into_actor".into());
        }
    }
    for phase in [FailurePhase::OnStart, FailurePhase::OnRun, FailurePhase::OnStop, FailurePhase::OnRunThenOnStop] {
        for killed in [false, true] {
            for has in [false, true] {
                let mk = || ActorResult::<SA>::Failed { actor: if has { Some(dummy_actor()) } else { None }, error: TagErr(77), phase, killed };
                n += 1;
                let (ok, d) = check_result_laws(&mk());
                if !ok {
                    bad.push(format!("Failed{{{phase:?},killed:{killed},actor:{has}}}: {d}"));
                }
                let t: (Option<SA>, Option<TagErr>) = mk().into();
                if t.0.is_some() != has || t.1.map(|e| e.0) != Some(77) {
                    bad.push(format!("Failed{{{phase:?}}}: tuple conversion"));
                }
                if mk().to_result().err().map(|e| e.0) != Some(77) {
                    bad.push(format!("Failed{{{phase:?}}}: to_result"));
                }
                if mk().into_error().map(|e| e.0) != Some(77) {
                    bad.push(format!("Failed{{{phase:?}}}: into_error"));
                }
                if mk().into_actor().is_some() != has {
                    bad.push(format!("Failed{{{phase:?}}}: into_actor"));
                }
            }
        }
    }
    (n, bad)
}

/// Error::is_retryable <=> Timeout, over every variant.
pub fn enum_errors() -> (u64, Vec<String>) {
    use rsactor::{Error, Identity};
    let id = Identity::new(1, "t");
    let rt = tokio::runtime::Builder::new_current_thread().build().unwrap();
    let join_err = rt.block_on(async {
        let h = tokio::spawn(async { std::future::pending::<()>().await });
        h.abort();
        h.await.unwrap_err()
    });
    let all: Vec<(Error, bool)> = vec![
        (Error::Send { identity: id, details: "d".into() }, false),
        (Error::Receive { identity: id, details: "d".into() }, false),
        (Error::Timeout { identity: id, timeout: std::time::Duration::from_millis(5), operation: "ask".into() }, true),
        (Error::Downcast { identity: id, expected_type: "x".into() }, false),
        (Error::Runtime { identity: id, details: "d".into() }, false),
        (Error::MailboxCapacity { message: "m".into() }, false),
        (Error::Join { identity: id, source: join_err }, false),
    ];
    let mut bad = Vec::new();
    for (e, want) in &all {
        if e.is_retryable() != *want {
            bad.push(format!("{e}: is_retryable() = {}", e.is_retryable()));
        }
    }
    (all.len() as u64, bad)
}

/// The crate's own wait-for walk against plain reachability on every acyclic functional graph with <= n nodes.
#[cfg(feature = "f_deadlock")]
pub fn enum_graphs(maxn: u64) -> (u64, Vec<String>) {
    let mut cases = 0;
    let mut bad = Vec::new();
    for n in 1..=maxn {
        // every node has at most one successor: succ[i] in {none, 1..n}; ids are 1..n
        let mut succ = vec![0u64; n as usize];
        loop {
            // acyclic?
            let acyclic = (0..n).all(|s| {
                let mut cur = s + 1;
                for _ in 0..=n {
                    let nx = succ[(cur - 1) as usize];
                    if nx == 0 {
                        return true;
                    }
                    cur = nx;
                }
                false
            });
            if acyclic {
                let edges: Vec<(u64, u64)> = (0..n).filter(|i| succ[*i as usize] != 0).map(|i| (i + 1, succ[i as usize])).collect();
                for from in 1..=n {
                    for to in 1..=n {
                        if from == to {
                            continue; // the caller tests self-asks before the walk
                        }
                        cases += 1;
                        // reference: follow successors from `from`
                        let mut reach = false;
                        let mut cur = from;
                        for _ in 0..=n {
                            let nx = succ[(cur - 1) as usize];
                            if nx == 0 {
                                break;
                            }
                            if nx == to {
                                reach = true;
                                break;
                            }
                            cur = nx;
                        }
                        let got = rsactor::verif::has_path(&edges, from, to);
                        if got != reach && bad.len() < 5 {
                            bad.push(format!("graph {edges:?}: has_path({from},{to}) = {got}, reachability = {reach}"));
                        }
                    }
                }
            }
            // next assignment
            let mut i = 0;
            loop {
                if i == n as usize {
                    break;
                }
                succ[i] += 1;
                if succ[i] <= n {
                    break;
                }
                succ[i] = 0;
                i += 1;
            }
            if i == n as usize {
                break;
            }
        }
    }
    (cases, bad)
}
