//! Plain exhaustive loops over small value domains (accessor laws of ActorResult, Error::is_retryable,
//! the wait-for walk).

use rsactor::{ActorResult, FailurePhase};

use crate::world::SA;

fn phase_of(r: &ActorResult<SA>) -> Option<FailurePhase> {
    match r {
        ActorResult::Completed { .. } => None,
        ActorResult::Failed { phase, .. } => Some(*phase),
    }
}

/// Every query method of `ActorResult` compared with its definition in terms of the variant's fields.
pub fn check_result_laws(r: &ActorResult<SA>) -> (bool, String) {
    let mut bad: Vec<String> = Vec::new();
    let (completed, killed, has_actor, err) = match r {
        ActorResult::Completed { killed, .. } => (true, *killed, true, None),
        ActorResult::Failed { actor, error, killed, .. } => (false, *killed, actor.is_some(), Some(error.0)),
    };
    let phase = phase_of(r);
    let mut law = |name: &str, got: bool, want: bool| {
        if got != want {
            bad.push(format!("{name}: got {got}, want {want}"));
        }
    };
    law("is_completed", r.is_completed(), completed);
    law("is_failed", r.is_failed(), !completed);
    law("was_killed", r.was_killed(), killed);
    law("stopped_normally", r.stopped_normally(), completed && !killed);
    law("is_startup_failed", r.is_startup_failed(), phase == Some(FailurePhase::OnStart));
    law(
        "is_runtime_failed",
        r.is_runtime_failed(),
        matches!(phase, Some(FailurePhase::OnRun) | Some(FailurePhase::OnRunThenOnStop)),
    );
    law("is_stop_failed", r.is_stop_failed(), phase == Some(FailurePhase::OnStop));
    law("is_cleanup_failed", r.is_cleanup_failed(), phase == Some(FailurePhase::OnRunThenOnStop));
    law("has_actor", r.has_actor(), has_actor);
    law("actor().is_some", r.actor().is_some(), has_actor);
    law("error().is_some", r.error().is_some(), !completed);
    if r.error().map(|e| e.0) != err {
        bad.push("error(): wrong value".into());
    }
    (bad.is_empty(), bad.join("; "))
}
