//! Index over one canonical trace: the relations the oracles are phrased in.

use std::collections::BTreeMap;

use crate::model::*;

#[derive(Clone, Debug)]
pub struct OpRec {
    pub op: u32,
    pub owner: Option<usize>,
    pub k: OpK,
    pub target: Option<usize>,
    pub msg: Option<u32>,
    pub slot: u8,
    pub route: String,
    pub start: usize,
    pub end: Option<usize>,
    pub res: Option<Res>,
    pub t0: u64,
    pub t1: Option<u64>,
}

impl OpRec {
    pub fn send_kind(&self) -> Option<SendKind> {
        match &self.k {
            OpK::Send(k) => Some(*k),
            _ => None,
        }
    }
    pub fn is_ok(&self) -> bool {
        matches!(
            self.res,
            Some(Res::Ok) | Some(Res::Rep { .. }) | Some(Res::Str(_)) | Some(Res::Join(_)) | Some(Res::RepR(_)) | Some(Res::Unit)
        )
    }
    pub fn err_kind(&self) -> Option<ErrK> {
        match &self.res {
            Some(Res::Err { k, .. }) => Some(k.clone()),
            _ => None,
        }
    }
}

#[derive(Clone, Debug, Default)]
pub struct RunInv {
    pub called: usize,
    pub inv: u32,
    pub exit: Option<(usize, String)>,
    pub cancelled: Option<usize>,
    pub marks: Vec<usize>,
}

#[derive(Clone, Debug, Default)]
pub struct ActorIx {
    pub spawned: Option<usize>,
    pub raw: Option<u64>,
    pub cap_reported: Option<i32>,
    pub spawn_panic: Option<String>,
    pub on_start_called: Vec<usize>,
    pub on_start_exit: Option<(usize, String)>,
    pub handler_called: BTreeMap<u32, Vec<usize>>,
    pub handler_exit: BTreeMap<u32, (usize, String)>,
    pub on_stop_called: Vec<(usize, bool)>,
    pub on_stop_exit: Option<(usize, String)>,
    pub runs: Vec<RunInv>,
    pub panics: Vec<usize>,
    pub joined: Option<(usize, JoinSummary)>,
    /// (index, hook) of every Called, in order
    pub calls: Vec<(usize, Hook, Option<u32>)>,
}

impl ActorIx {
    pub fn started_ok(&self) -> bool {
        matches!(&self.on_start_exit, Some((_, o)) if o == "Ok")
    }
    pub fn start_failed(&self) -> bool {
        matches!(&self.on_start_exit, Some((_, o)) if o.starts_with("Err"))
    }
    pub fn crashed(&self) -> bool {
        !self.panics.is_empty()
    }
    pub fn run_err(&self) -> Option<(usize, u32)> {
        for r in &self.runs {
            if let Some((i, o)) = &r.exit {
                if let Some(t) = o.strip_prefix("Err(").and_then(|s| s.strip_suffix(')')) {
                    return Some((*i, t.parse().unwrap_or(0)));
                }
            }
        }
        None
    }
    /// index of the first event after which the actor no longer serves anything
    pub fn end_begins(&self) -> Option<usize> {
        let mut c: Vec<usize> = Vec::new();
        if let Some((i, _)) = self.on_stop_called.first() {
            c.push(*i);
        }
        if let Some(i) = self.panics.first() {
            c.push(*i);
        }
        if let Some((i, o)) = &self.on_start_exit {
            if o != "Ok" {
                c.push(*i);
            }
        }
        c.into_iter().min()
    }
    /// hook in progress at trace position `at` (Called before `at`, not finished before `at`)
    pub fn in_progress(&self, at: usize) -> Option<(Hook, usize, Option<u32>)> {
        let mut cur: Option<(Hook, usize, Option<u32>)> = None;
        for (i, h, m) in &self.calls {
            if *i >= at {
                break;
            }
            cur = Some((*h, *i, *m));
        }
        let (h, i, m) = cur?;
        let fin: Option<usize> = match h {
            Hook::OnStart => self.on_start_exit.as_ref().map(|x| x.0),
            Hook::OnStop => self.on_stop_exit.as_ref().map(|x| x.0),
            Hook::Handler => m.and_then(|m| self.handler_exit.get(&m).map(|x| x.0)),
            Hook::OnRun => self
                .runs
                .iter()
                .find(|r| r.called == i)
                .and_then(|r| r.exit.as_ref().map(|x| x.0).or(r.cancelled)),
            Hook::Task => None,
        };
        let panicked = self.panics.iter().any(|p| *p > i && *p < at);
        match fin {
            Some(f) if f < at => None,
            _ if panicked => None,
            _ => Some((h, i, m)),
        }
    }
}

pub struct Ix<'a> {
    pub scn: &'a Scenario,
    pub tr: &'a [Ev],
    pub ops: Vec<OpRec>,
    pub actors: Vec<ActorIx>,
    pub nc: usize,
}

impl<'a> Ix<'a> {
    pub fn actor_owner(&self, j: usize) -> usize {
        self.nc + j
    }
    pub fn owner_actor(&self, o: usize) -> Option<usize> {
        if o >= self.nc && o < self.nc + self.actors.len() {
            Some(o - self.nc)
        } else {
            None
        }
    }

    pub fn new(scn: &'a Scenario, tr: &'a [Ev]) -> Self {
        let nc = scn.clients.len();
        let na = scn.actors.len();
        let mut actors: Vec<ActorIx> = (0..na).map(|_| ActorIx::default()).collect();
        let mut ops: Vec<OpRec> = Vec::new();
        let mut opidx: BTreeMap<u32, usize> = BTreeMap::new();
        for (i, e) in tr.iter().enumerate() {
            match &e.k {
                EvK::OpStart { op, k, target, msg, slot, route } => {
                    opidx.insert(*op, ops.len());
                    ops.push(OpRec {
                        op: *op,
                        owner: e.owner,
                        k: k.clone(),
                        target: *target,
                        msg: *msg,
                        slot: *slot,
                        route: route.clone(),
                        start: i,
                        end: None,
                        res: None,
                        t0: e.t,
                        t1: None,
                    });
                }
                EvK::OpEnd { op, res } => {
                    if let Some(p) = opidx.get(op) {
                        ops[*p].end = Some(i);
                        ops[*p].res = Some(res.clone());
                        ops[*p].t1 = Some(e.t);
                    }
                }
                EvK::Spawned { actor, raw, cap_reported } => {
                    if let Some(a) = actors.get_mut(*actor) {
                        a.spawned = Some(i);
                        a.raw = Some(*raw);
                        a.cap_reported = Some(*cap_reported);
                    }
                }
                EvK::SpawnPanic { actor, msg } => {
                    if let Some(a) = actors.get_mut(*actor) {
                        a.spawn_panic = Some(msg.clone());
                    }
                }
                EvK::Called { actor, hook, msg, killed, inv } => {
                    if let Some(a) = actors.get_mut(*actor) {
                        if *hook != Hook::Task {
                            a.calls.push((i, *hook, *msg));
                        }
                        match hook {
                            Hook::OnStart => a.on_start_called.push(i),
                            Hook::Handler => a.handler_called.entry(msg.unwrap_or(0)).or_default().push(i),
                            Hook::OnStop => a.on_stop_called.push((i, killed.unwrap_or(false))),
                            Hook::OnRun => a.runs.push(RunInv { called: i, inv: *inv, ..Default::default() }),
                            Hook::Task => {}
                        }
                    }
                }
                EvK::Exit { actor, hook, msg, out } => {
                    if let Some(a) = actors.get_mut(*actor) {
                        match hook {
                            Hook::OnStart => a.on_start_exit = Some((i, out.clone())),
                            Hook::Handler => {
                                a.handler_exit.insert(msg.unwrap_or(0), (i, out.clone()));
                            }
                            Hook::OnStop => a.on_stop_exit = Some((i, out.clone())),
                            Hook::OnRun => {
                                if let Some(r) = a.runs.last_mut() {
                                    r.exit = Some((i, out.clone()));
                                }
                            }
                            Hook::Task => {}
                        }
                    }
                }
                EvK::Cancelled { actor, hook: Hook::OnRun, .. } => {
                    if let Some(a) = actors.get_mut(*actor) {
                        if let Some(r) = a.runs.last_mut() {
                            if r.exit.is_none() {
                                r.cancelled = Some(i);
                            }
                        }
                    }
                }
                EvK::Mark { actor: Some(actor), hook: Some(Hook::OnRun), .. } => {
                    if let Some(a) = actors.get_mut(*actor) {
                        if let Some(r) = a.runs.last_mut() {
                            r.marks.push(i);
                        }
                    }
                }
                EvK::Panic { .. } => {
                    if let Some(o) = e.owner {
                        if o >= nc && o < nc + na {
                            actors[o - nc].panics.push(i);
                        }
                    }
                }
                EvK::Joined { actor, summary } => {
                    if let Some(a) = actors.get_mut(*actor) {
                        a.joined = Some((i, summary.clone()));
                    }
                }
                _ => {}
            }
        }
        Ix { scn, tr, ops, actors, nc }
    }

    pub fn sends_to(&self, a: usize) -> impl Iterator<Item = &OpRec> {
        self.ops.iter().filter(move |o| o.target == Some(a) && matches!(o.k, OpK::Send(_)))
    }
    pub fn kills_of(&self, a: usize) -> impl Iterator<Item = &OpRec> {
        self.ops.iter().filter(move |o| o.target == Some(a) && o.k == OpK::Kill)
    }
    pub fn stops_of(&self, a: usize) -> impl Iterator<Item = &OpRec> {
        self.ops.iter().filter(move |o| o.target == Some(a) && o.k == OpK::Stop)
    }
    pub fn first_kill(&self, a: usize) -> Option<usize> {
        self.kills_of(a).map(|o| o.start).min()
    }
    pub fn first_stop(&self, a: usize) -> Option<usize> {
        self.stops_of(a).map(|o| o.start).min()
    }
    /// the actor runs no hook that never finishes (parked script), as far as this trace shows
    pub fn hook_stuck(&self, a: usize) -> bool {
        // an on_run in progress does not keep the loop from taking messages or ending
        matches!(self.actors[a].in_progress(self.tr.len()), Some((h, _, _)) if h != Hook::OnRun)
    }
    pub fn msg_spec(&self, id: u32) -> Option<MsgSpec> {
        fn find(steps: &[Step], id: u32) -> Option<MsgSpec> {
            for s in steps {
                if let Step::Send { msg, .. } = s {
                    if msg.id == id {
                        return Some(msg.clone());
                    }
                    if let Some(m) = find(&msg.steps, id) {
                        return Some(m);
                    }
                }
            }
            None
        }
        for c in &self.scn.clients {
            if let Some(m) = find(&c.steps, id) {
                return Some(m);
            }
        }
        for a in &self.scn.actors {
            for h in std::iter::once(&a.on_start).chain(a.on_run.iter()).chain(std::iter::once(&a.on_stop)) {
                if let Some(m) = find(&h.steps, id) {
                    return Some(m);
                }
            }
        }
        None
    }
}

// ------------------------------------------------------------------ handle bookkeeping (reference model)

#[derive(Clone, Debug, PartialEq)]
pub struct SlotVal {
    pub kind: String,
    pub target: Option<usize>,
}

/// Replays the Slot events up to (not including) trace position `upto` and returns, per actor, the number
/// of strong handles the harness holds (client slots, registry, state of actors that are still alive).
pub fn held_strong(ix: &Ix, upto: usize) -> Vec<usize> {
    let mut slots: BTreeMap<(Holder, u8), SlotVal> = BTreeMap::new();
    let mut dead_actors: Vec<bool> = vec![false; ix.actors.len()];
    for (i, e) in ix.tr.iter().enumerate() {
        if i >= upto {
            break;
        }
        match &e.k {
            EvK::Slot { holder, slot, kind, target } => {
                slots.insert((*holder, *slot), SlotVal { kind: kind.clone(), target: *target });
            }
            // an actor's state is gone once it panicked or its result was collected and dropped
            EvK::Joined { actor, .. } => dead_actors[*actor] = true,
            EvK::Panic { .. } => {
                if let Some(a) = e.owner.and_then(|o| ix.owner_actor(o)) {
                    dead_actors[a] = true;
                }
            }
            _ => {}
        }
    }
    let mut out = vec![0usize; ix.actors.len()];
    for ((holder, _), v) in &slots {
        let strong = matches!(v.kind.as_str(), "strong" | "tell" | "ask" | "ctl");
        if !strong {
            continue;
        }
        if let Holder::Actor(j) = holder {
            if dead_actors[*j] {
                continue;
            }
        }
        if let Some(t) = v.target {
            out[t] += 1;
        }
    }
    out
}
