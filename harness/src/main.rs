mod bthreads;
mod explore;
mod ix;
mod model;
mod mon;
mod msched;
mod props;
mod tsched;
mod valenum;
mod world;

use std::sync::Arc;

use model::*;

pub fn render(e: &Ev) -> String {
    let o = match e.owner {
        Some(o) => format!("o{o}"),
        None => "--".to_string(),
    };
    format!("t={:<3} {o:<3} {:?}", e.t, e.k)
}

fn arg(args: &[String], name: &str) -> Option<String> {
    args.iter().position(|a| a == name).and_then(|i| args.get(i + 1).cloned())
}

fn main() {
    msched::install_panic_hook();
    msched::install_tracing();
    let args: Vec<String> = std::env::args().collect();
    let cmd = args.get(1).map(|s| s.as_str()).unwrap_or("");
    match cmd {
        "explore" => cmd_explore(&args),
        "replay" => cmd_replay(&args),
        "diff" => cmd_diff(&args),
        "dump" => cmd_dump(&args),
        "procenum" => cmd_procenum(&args),
        "stress-dl" => cmd_stress_dl(&args),
        "stress-metrics" => cmd_stress_metrics(&args),
        "tsched" => cmd_tsched(&args),
        "tsched-replay" => cmd_tsched_replay(&args),
        "stress-ids" => cmd_stress_ids(&args),
        "valenum" => {
            let what = args.get(2).map(|s| s.as_str()).unwrap_or("");
            let (n, bad): (u64, Vec<String>) = match what {
                "results" => valenum::enum_actor_results(),
                "errors" => valenum::enum_errors(),
                #[cfg(feature = "f_deadlock")]
                "graphs" => valenum::enum_graphs(args.get(3).and_then(|s| s.parse().ok()).unwrap_or(5)),
                _ => (0, vec!["unknown enumeration (graphs needs the f_deadlock build)".into()]),
            };
            println!("{}", serde_json::json!({"what": what, "cases": n, "disagreements": bad}));
        }
        "bthreads" => cmd_bthreads(&args),
        "bthreads-replay" => {
            let text = std::fs::read_to_string(&args[2]).expect("read");
            let v: serde_json::Value = serde_json::from_str(&text).expect("json");
            let scn: bthreads::BScenario = serde_json::from_value(v["scenario"].clone()).expect("scenario");
            let order: Vec<usize> = serde_json::from_value(v["order"].clone()).expect("order");
            let mut bad = 0;
            for k in 0..3 {
                let run = bthreads::run_order(&scn, &order);
                let viol = bthreads::check_run(&scn, &run);
                println!("attempt {k}: {} violation(s)", viol.len());
                for (c, d) in &viol {
                    println!("VIOLATED {c}: {d}");
                }
                if !viol.is_empty() {
                    bad += 1;
                    for o in &run.ops {
                        println!("   {:?}", o);
                    }
                    println!("   handler log {:?}", run.log);
                }
            }
            if bad > 0 {
                println!("VIOLATION property=C17 replay={}", args[2]);
                std::process::exit(1);
            }
            println!("no violation on this replay");
        }
        "exec-json" => {
            let text = std::fs::read_to_string(&args[2]).expect("read");
            let v: serde_json::Value = serde_json::from_str(&text).expect("json");
            let scn: Scenario = serde_json::from_value(v["scenario"].clone()).expect("scenario");
            let schedule: Vec<u16> = serde_json::from_value(v["schedule"].clone()).expect("schedule");
            let scn = Arc::new(scn);
            let (r, diverged) = explore::run_schedule(&scn, &schedule);
            let ct = explore::canon(&r.trace, &r.raw_ids);
            let steps: Vec<(usize, usize, bool)> = r.steps.iter().map(|s| (s.n, s.chosen, s.cont)).collect();
            println!("{}", serde_json::json!({"steps": steps, "trace": ct, "diverged": diverged, "error": r.error, "points": r.points, "actions": r.actions}));
        }
        "hash-replay" => {
            let text = std::fs::read_to_string(&args[2]).expect("read");
            let v: serde_json::Value = serde_json::from_str(&text).expect("json");
            let scn: Scenario = serde_json::from_value(v["scenario"].clone()).expect("scenario");
            let schedule: Vec<u16> = serde_json::from_value(v["schedule"].clone()).expect("schedule");
            let scn = Arc::new(scn);
            let (r, diverged) = explore::run_schedule(&scn, &schedule);
            if diverged || r.error.is_some() {
                println!("DIVERGED");
            } else {
                let ct = explore::canon(&r.trace, &r.raw_ids);
                let h = if scn.has_tag("feature_neutral") { explore::hash_trace(&explore::feature_neutral(&ct)) } else { explore::hash_trace(&ct) };
                println!("HASH {h:016x}");
            }
        }
        "list" => {
            let prop = arg(&args, "--prop").expect("--prop");
            let thorough = arg(&args, "--tier").as_deref() == Some("thorough");
            let p = props::all().into_iter().find(|p| p.id == prop).expect("unknown property");
            let scns = (p.gen)(if thorough { p.thorough_level } else { p.quick_level });
            println!("{}", scns.len());
            if args.iter().any(|a| a == "--names") {
                for s in &scns {
                    println!("{}", s.name);
                }
            }
        }
        _ => {
            eprintln!("usage: rsv explore --prop C04 --tier quick --shard 0 --nshards 16 --out f.json | replay <file> | list --prop C04");
            std::process::exit(2);
        }
    }
}

/// If one execution makes no progress for `secs` seconds the code under test hangs without ever returning to the
/// scheduler (a spin in framework code that polls no hook): write what was running and leave with exit code 3.
fn start_hang_watchdog(out: Option<String>, prop: String, secs: u64) {
    std::thread::spawn(move || {
        let mut last = explore::HEARTBEAT.load(std::sync::atomic::Ordering::SeqCst);
        let mut since = std::time::Instant::now();
        loop {
            std::thread::sleep(std::time::Duration::from_millis(500));
            let now = explore::HEARTBEAT.load(std::sync::atomic::Ordering::SeqCst);
            if now != last {
                last = now;
                since = std::time::Instant::now();
            } else if since.elapsed().as_secs() >= secs && now > 0 {
                let cur = explore::CURRENT.lock().ok().and_then(|c| c.clone());
                if let (Some(o), Some((scn, sched))) = (&out, cur) {
                    let body = format!("{{\"hang\":true,\"prop\":\"{prop}\",\"scenario\":{scn},\"schedule\":{:?}}}", sched);
                    let _ = std::fs::write(format!("{o}.hang"), body);
                }
                eprintln!("HANG: one execution did not finish within {secs} s");
                std::process::exit(3);
            }
        }
    });
}

fn cmd_explore(args: &[String]) {
    let prop = arg(args, "--prop").expect("--prop");
    start_hang_watchdog(arg(args, "--out"), prop.clone(), 150);
    let thorough = arg(args, "--tier").as_deref() == Some("thorough");
    let shard: usize = arg(args, "--shard").map(|s| s.parse().unwrap()).unwrap_or(0);
    let nshards: usize = arg(args, "--nshards").map(|s| s.parse().unwrap()).unwrap_or(1);
    let seed: u64 = arg(args, "--seed").map(|s| s.parse().unwrap()).unwrap_or(0);
    let out = arg(args, "--out");
    let only = arg(args, "--only");
    let budget_s: f64 = arg(args, "--budget").map(|s| s.parse().unwrap()).unwrap_or(if thorough { 800.0 } else { 50.0 });
    let max_found: usize = arg(args, "--max-found").map(|s| s.parse().unwrap()).unwrap_or(3);
    let p = props::all().into_iter().find(|p| p.id == prop).expect("unknown property");
    let mut scns = (p.gen)(if thorough { p.thorough_level } else { p.quick_level });
    if seed != 0 {
        for s in scns.iter_mut() {
            s.seed = s.seed.wrapping_add(seed);
        }
    }
    let lim = explore::Limits {
        bound: arg(args, "--bound").map(|b| if b == "inf" { None } else { Some(b.parse().unwrap()) }).unwrap_or(if thorough { p.bound_thorough } else { p.bound_quick }),
        max_execs: arg(args, "--max-execs").map(|s| s.parse().unwrap()).unwrap_or(if thorough { p.max_execs_thorough } else { p.max_execs_quick }),
    };
    let t0 = std::time::Instant::now();
    let mut stats = explore::Stats::default();
    let mut sample = None;
    let mut found: Vec<explore::Found> = Vec::new();
    let mut sigs: Vec<serde_json::Value> = Vec::new();
    let mut skipped_budget = 0u64;
    let total = scns.len();
    // rotate the shard assignment with the seed so that different seeds shard differently
    for (i, s) in scns.into_iter().enumerate() {
        if (i + seed as usize) % nshards != shard {
            continue;
        }
        if let Some(o) = &only {
            if !s.name.contains(o.as_str()) {
                continue;
            }
        }
        if t0.elapsed().as_secs_f64() > budget_s {
            skipped_budget += 1;
            continue;
        }
        let s = Arc::new(s);
        let r = explore::explore_scenario(&s, &lim, &p.monitor, &mut stats, &mut sample);
        sigs.push(serde_json::json!({"name": s.name, "tree": format!("{:016x}", r.tree_sig), "set": format!("{:016x}", r.set_sig), "n": r.trace_hashes.len(), "exhaustive": r.exhaustive}));
        if let Some(f) = r.found {
            found.push(f);
            // (only violations that a fresh process confirms count towards the limit)
            if found.iter().filter(|f| f.reproduced).count() >= max_found || found.len() >= max_found + 3 {
                break;
            }
        }
    }
    let res = serde_json::json!({
        "prop": prop,
        "tier": if thorough { "thorough" } else { "quick" },
        "shard": shard,
        "nshards": nshards,
        "scenarios_total": total,
        "bound": lim.bound,
        "max_execs_per_scenario": lim.max_execs,
        "skipped_for_time_budget": skipped_budget,
        "stats": stats,
        "sample": sample,
        "found": found,
        "sigs": if args.iter().any(|a| a == "--sigs") { serde_json::Value::Array(sigs) } else { serde_json::Value::Null },
        "wall_s": t0.elapsed().as_secs_f64(),
    });
    let text = serde_json::to_string(&res).unwrap();
    match out {
        Some(f) => std::fs::write(f, text).unwrap(),
        None => println!("{text}"),
    }
}

fn cmd_replay(args: &[String]) {
    let file = args.get(2).expect("replay <file>");
    let text = std::fs::read_to_string(file).expect("read replay file");
    let v: serde_json::Value = serde_json::from_str(&text).expect("json");
    let prop = v["property"].as_str().expect("property").to_string();
    let scn: Scenario = serde_json::from_value(v["scenario"].clone()).expect("scenario");
    let schedule: Vec<u16> = serde_json::from_value(v["schedule"].clone()).expect("schedule");
    let p = props::all().into_iter().find(|p| p.id == prop).expect("unknown property");
    let scn = Arc::new(scn);
    let (r, diverged) = explore::run_schedule(&scn, &schedule);
    let ct = explore::canon(&r.trace, &r.raw_ids);
    println!("scenario {} schedule {:?} diverged={} machinery_error={:?}", scn.name, schedule, diverged, r.error);
    for (i, e) in ct.iter().enumerate() {
        println!("{i:>4} {}", render(e));
    }
    let mut viol = (p.monitor)(&scn, &ct);
    if ct.iter().any(|e| matches!(e.k, EvK::Livelock { .. })) {
        viol.push(explore::Violation { clause: "no livelock".into(), detail: "hook code polled without the runtime ever becoming idle".into() });
    }
    for x in &viol {
        println!("VIOLATED {}: {}", x.clause, x.detail);
    }
    if viol.is_empty() {
        println!("no violation on this replay");
    } else {
        println!("VIOLATION property={prop} replay={file}");
        std::process::exit(1);
    }
}

/// Differential exploration (C16): every variant of a group must be observationally identical to its base.
fn cmd_diff(args: &[String]) {
    let thorough = arg(args, "--tier").as_deref() == Some("thorough");
    let shard: usize = arg(args, "--shard").map(|s| s.parse().unwrap()).unwrap_or(0);
    let nshards: usize = arg(args, "--nshards").map(|s| s.parse().unwrap()).unwrap_or(1);
    let seed: u64 = arg(args, "--seed").map(|s| s.parse().unwrap()).unwrap_or(0);
    let out = arg(args, "--out");
    let only = arg(args, "--only");
    let budget_s: f64 = arg(args, "--budget").map(|s| s.parse().unwrap()).unwrap_or(if thorough { 800.0 } else { 50.0 });
    let groups = props::gen_c16(if thorough { 1 } else { 0 });
    let lim = explore::Limits { bound: arg(args, "--bound").map(|b| if b == "inf" { None } else { Some(b.parse().unwrap()) }).unwrap_or(None), max_execs: if thorough { 400_000 } else { 50_000 } };
    let t0 = std::time::Instant::now();
    let mut stats = explore::Stats::default();
    let mut found: Vec<explore::Found> = Vec::new();
    let mut sample = None;
    let mut skipped = 0u64;
    let mut incomparable = 0u64;
    let total = groups.len();
    for (gi, (base, vars)) in groups.into_iter().enumerate() {
        if (gi + seed as usize) % nshards != shard {
            continue;
        }
        if let Some(o) = &only {
            if !base.name.contains(o.as_str()) {
                continue;
            }
        }
        if t0.elapsed().as_secs_f64() > budget_s {
            skipped += 1;
            continue;
        }
        let mut base = base;
        base.seed = base.seed.wrapping_add(seed);
        let base = Arc::new(base);
        let cb = explore::explore_collect(&base, &lim, &props::project_c16, &mut stats, true);
        for v in vars {
            let mut v = v;
            v.seed = v.seed.wrapping_add(seed);
            let v = Arc::new(v);
            let cv = explore::explore_collect(&v, &lim, &props::project_c16, &mut stats, true);
            let same_shape = cb.by_schedule.len() == cv.by_schedule.len();
            if !same_shape && !(cb.exhaustive && cv.exhaustive) {
                incomparable += 1;
            }
            stats.premises += cv.by_schedule.len() as u64;
            if sample.is_none() {
                if let Some((k, h)) = cv.by_schedule.iter().find(|(k, _)| k.len() >= 2) {
                    sample = Some(serde_json::json!({"scenario": v.name, "schedule": k, "observable_trace": cv.sample_lines.get(h)}));
                }
            }
            if let Some((sched, why)) = explore::compare_variant(&cb, &cv) {
                let reference_only = why.starts_with("REFERENCE-ONLY");
                let (scn_for_replay, lines) = if reference_only {
                    (base.clone(), cb.sample_lines.get(&cb.by_schedule[&sched]).cloned().unwrap_or_default())
                } else {
                    (v.clone(), cv.sample_lines.get(&cv.by_schedule[&sched]).cloned().unwrap_or_default())
                };
                // first differing line against the reference run under the same schedule, if it exists there
                let mut detail = format!("{why}; variant {} vs reference {}", v.name, base.name);
                if let Some(hb) = cb.by_schedule.get(&sched) {
                    if let Some(bl) = cb.sample_lines.get(hb) {
                        for (i, l) in lines.iter().enumerate() {
                            if bl.get(i) != Some(l) {
                                detail.push_str(&format!("; first difference at line {i}: erased `{l}` vs direct `{}`", bl.get(i).cloned().unwrap_or_default()));
                                break;
                            }
                        }
                    }
                }
                let (r, _) = explore::run_schedule(&scn_for_replay, &sched);
                let (r2, _) = explore::run_schedule(&scn_for_replay, &sched);
                let t1 = explore::canon(&r.trace, &r.raw_ids);
                let reproduced = explore::hash_trace(&t1) == explore::hash_trace(&explore::canon(&r2.trace, &r2.raw_ids));
                found.push(explore::Found {
                    scenario: (*scn_for_replay).clone(),
                    schedule: sched,
                    violations: vec![explore::Violation { clause: "C16 erased run equals direct run".into(), detail }],
                    trace: t1,
                    reproduced,
                });
                break;
            }
        }
        if found.len() >= 3 {
            break;
        }
    }
    let res = serde_json::json!({
        "prop": "C16",
        "tier": if thorough { "thorough" } else { "quick" },
        "shard": shard,
        "nshards": nshards,
        "scenarios_total": total,
        "bound": lim.bound,
        "max_execs_per_scenario": lim.max_execs,
        "skipped_for_time_budget": skipped,
        "incomparable_pairs": incomparable,
        "stats": stats,
        "sample": sample,
        "found": found,
        "sigs": serde_json::Value::Null,
        "wall_s": t0.elapsed().as_secs_f64(),
    });
    let text = serde_json::to_string(&res).unwrap();
    match out {
        Some(f) => std::fs::write(f, text).unwrap(),
        None => println!("{text}"),
    }
}

/// Print, for one scenario, every explored schedule with its feature-neutral observable trace.
fn cmd_dump(args: &[String]) {
    let prop = arg(args, "--prop").expect("--prop");
    let only = arg(args, "--only").expect("--only");
    let seed: u64 = arg(args, "--seed").map(|s| s.parse().unwrap()).unwrap_or(0);
    let p = props::all().into_iter().find(|p| p.id == prop).expect("unknown property");
    let lim = explore::Limits { bound: p.bound_quick, max_execs: p.max_execs_quick };
    let mut stats = explore::Stats::default();
    for mut s in (p.gen)(p.quick_level) {
        if s.name != only {
            continue;
        }
        s.seed = s.seed.wrapping_add(seed);
        let s = Arc::new(s);
        let proj = |t: &[Ev]| explore::feature_neutral(t).iter().map(render).collect::<Vec<String>>();
        let c = explore::explore_collect(&s, &lim, &proj, &mut stats, true);
        let rows: Vec<serde_json::Value> = c.by_schedule.iter().map(|(k, h)| serde_json::json!({"schedule": k, "hash": format!("{h:016x}"), "lines": c.sample_lines.get(h)})).collect();
        println!("{}", serde_json::json!({"scenario": *s, "rows": rows}));
    }
}

/// One process = one call sequence against the process-wide default mailbox capacity.
/// ops: set<N> | spawn | spawn<N> (explicit capacity; 0 must panic)      e.g.  rsv procenum set5,spawn,set2,spawn3
fn cmd_procenum(args: &[String]) {
    let seq = args.get(2).cloned().unwrap_or_default();
    let mut results: Vec<serde_json::Value> = Vec::new();
    for (i, op) in seq.split(',').filter(|s| !s.is_empty()).enumerate() {
        if let Some(n) = op.strip_prefix("set") {
            let n: usize = n.parse().expect("setN");
            let r = rsactor::set_default_mailbox_capacity(n);
            let kind = match &r {
                Ok(()) => "Ok".to_string(),
                Err(rsactor::Error::MailboxCapacity { .. }) => "Err(MailboxCapacity)".to_string(),
                Err(e) => format!("Err(other: {e})"),
            };
            results.push(serde_json::json!({"op": op, "result": kind}));
        } else if let Some(explicit) = op.strip_prefix("spawn").map(|n| if n.is_empty() { None } else { Some(n.parse::<usize>().expect("spawnN")) }) {
            // an actor parked in on_start; one client sends 40 tells back to back: as many complete as the mailbox holds
            let mut a = ActorSpec::plain(1);
            a.cap = explicit;
            a.on_start = HookSpec { entry_yield: true, steps: vec![Step::Park], out: Outcome::Ok, free: false };
            a.at_start = op != "spawn0";
            let mut steps = Vec::new();
            if op == "spawn0" {
                steps.push(Step::Spawn { actor: 0, to: 0 });
            } else {
                for k in 0..40u32 {
                    steps.push(Step::Send { kind: SendKind::Tell, slot: 0, msg: MsgSpec::quick(1 + k) });
                }
            }
            let scn = Scenario {
                name: format!("procenum-{i}-{op}"),
                actors: vec![a],
                clients: vec![Program { slots: if op == "spawn0" { vec![] } else { vec![(0, 0)] }, steps, auto_yield: false, free: false }],
                registry: false,
                seed: 0,
                tags: vec![],
            };
            let scn = Arc::new(scn);
            let (r, _) = explore::run_schedule(&scn, &[]);
            let ct = explore::canon(&r.trace, &r.raw_ids);
            let completed = ct.iter().filter(|e| matches!(&e.k, EvK::OpEnd { res: Res::Ok, .. })).count();
            let reported = ct.iter().find_map(|e| if let EvK::Spawned { cap_reported, .. } = &e.k { Some(*cap_reported) } else { None });
            let panicked = ct.iter().find_map(|e| if let EvK::SpawnPanic { msg, .. } = &e.k { Some(msg.clone()) } else { None });
            results.push(serde_json::json!({"op": op, "tells_completed_before_one_waits": completed, "capacity_reported": reported, "spawn_panic": panicked, "machinery_error": r.error}));
        } else {
            results.push(serde_json::json!({"op": op, "result": "unknown op"}));
        }
    }
    println!("{}", serde_json::json!({"seq": seq, "results": results}));
}

/// Sampling, not exhaustive (DESIGN.md L1): N OS threads (half of them plain threads using blocking_tell, half
/// async tasks on a multi-thread runtime using tell) fail deliveries to an ended actor at the same time; the
/// dead-letter counter must have advanced by exactly the number of failures. Sound when it fires; silence proves
/// nothing about atomicity.
#[cfg(feature = "f_testutils")]
fn cmd_stress_dl(args: &[String]) {
    use rsactor::{Actor, ActorRef};
    struct Tiny;
    impl Actor for Tiny {
        type Args = ();
        type Error = String;
        async fn on_start(_: (), _: &ActorRef<Self>) -> Result<Self, String> {
            Ok(Tiny)
        }
    }
    struct Ping;
    impl rsactor::Message<Ping> for Tiny {
        type Reply = ();
        async fn handle(&mut self, _: Ping, _: &ActorRef<Self>) {}
    }
    // no subscriber work at all: the threads must meet in the counter update, not queue up at a log sink
    msched::TRACE_OFF.store(true, std::sync::atomic::Ordering::SeqCst);
    let threads: usize = args.get(2).and_then(|s| s.parse().ok()).unwrap_or(8);
    let rounds: usize = args.get(3).and_then(|s| s.parse().ok()).unwrap_or(20000);
    let rt = tokio::runtime::Builder::new_multi_thread().worker_threads(4).enable_all().build().unwrap();
    let dead = rt.block_on(async {
        let (r, jh) = rsactor::spawn::<Tiny>(());
        r.stop().await.unwrap();
        jh.await.unwrap();
        r
    });
    // process CPU time (utime+stime, clock ticks) - tells whether a batch really ran on several cores at once
    fn cpu_ticks() -> u64 {
        let st = std::fs::read_to_string("/proc/self/stat").unwrap_or_default();
        let after = st.rsplit(')').next().unwrap_or("");
        let f: Vec<&str> = after.split_whitespace().collect();
        f.get(11).and_then(|x| x.parse::<u64>().ok()).unwrap_or(0) + f.get(12).and_then(|x| x.parse::<u64>().ok()).unwrap_or(0)
    }
    let max_batches: usize = args.get(4).and_then(|s| s.parse().ok()).unwrap_or(12);
    let (mut failures, mut counted, mut batches, mut parallel_batches) = (0u64, 0u64, 0usize, 0usize);
    while batches < max_batches && parallel_batches < 3 && failures == counted {
        batches += 1;
        rsactor::reset_dead_letter_count();
        let (c0, w0) = (cpu_ticks(), std::time::Instant::now());
        let barrier = Arc::new(std::sync::Barrier::new(threads));
        let mut hs = Vec::new();
        for i in 0..threads {
            let b = barrier.clone();
            let r = dead.clone();
            let h = rt.handle().clone();
            hs.push(std::thread::spawn(move || {
                b.wait();
                let mut failed = 0u64;
                if i % 2 == 0 {
                    for _ in 0..rounds {
                        if r.blocking_tell(Ping, None).is_err() {
                            failed += 1;
                        }
                    }
                } else {
                    failed = h.block_on(async {
                        let mut f = 0u64;
                        for _ in 0..rounds {
                            if r.tell(Ping).await.is_err() {
                                f += 1;
                            }
                        }
                        f
                    });
                }
                failed
            }));
        }
        failures += hs.into_iter().map(|h| h.join().unwrap()).sum::<u64>();
        counted += rsactor::dead_letter_count();
        let wall_ticks = w0.elapsed().as_secs_f64() * 100.0;
        if wall_ticks > 0.0 && (cpu_ticks() - c0) as f64 / wall_ticks > 2.0 {
            parallel_batches += 1;
        }
    }
    println!("{}", serde_json::json!({"threads": threads, "rounds": rounds, "batches": batches, "batches_that_ran_on_several_cores": parallel_batches, "failures": failures, "counted": counted}));
}

#[cfg(not(feature = "f_testutils"))]
fn cmd_stress_dl(_args: &[String]) {
    println!("{}", serde_json::json!({"error": "needs f_testutils"}));
}

/// Sampling, not exhaustive (DESIGN.md L1): reader threads poll an actor's metrics as fast as they can while the
/// actor (on a multi-thread runtime) handles N asks; once everything is quiet message_count must be N and the
/// count seen by each reader must never have gone down. Sound when it fires; silence proves nothing.
#[cfg(feature = "f_metrics")]
fn cmd_stress_metrics(args: &[String]) {
    use rsactor::{Actor, ActorRef};
    struct Tiny;
    impl Actor for Tiny {
        type Args = ();
        type Error = String;
        async fn on_start(_: (), _: &ActorRef<Self>) -> Result<Self, String> {
            Ok(Tiny)
        }
    }
    struct Ping;
    impl rsactor::Message<Ping> for Tiny {
        type Reply = u32;
        async fn handle(&mut self, _: Ping, _: &ActorRef<Self>) -> u32 {
            1
        }
    }
    msched::TRACE_OFF.store(true, std::sync::atomic::Ordering::SeqCst);
    let readers: usize = args.get(2).and_then(|s| s.parse().ok()).unwrap_or(6);
    let n: u64 = args.get(3).and_then(|s| s.parse().ok()).unwrap_or(20000);
    let rt = tokio::runtime::Builder::new_multi_thread().worker_threads(4).enable_all().build().unwrap();
    let (r, jh) = {
        let _g = rt.enter();
        rsactor::spawn::<Tiny>(())
    };
    let stop = Arc::new(std::sync::atomic::AtomicBool::new(false));
    let mut hs = Vec::new();
    for _ in 0..readers {
        let r = r.clone();
        let stop = stop.clone();
        hs.push(std::thread::spawn(move || {
            let (mut last, mut decreased, mut reads) = (0u64, 0u64, 0u64);
            while !stop.load(std::sync::atomic::Ordering::Relaxed) {
                let c = if reads % 2 == 0 { r.metrics().message_count } else { r.message_count() };
                if c < last {
                    decreased += 1;
                }
                last = c;
                reads += 1;
            }
            (decreased, reads)
        }));
    }
    let handled = rt.block_on(async {
        let mut ok = 0u64;
        for _ in 0..n {
            if r.ask(Ping).await.is_ok() {
                ok += 1;
            }
        }
        ok
    });
    stop.store(true, std::sync::atomic::Ordering::Relaxed);
    let (mut decreased, mut reads) = (0u64, 0u64);
    for h in hs {
        let (d, k) = h.join().unwrap();
        decreased += d;
        reads += k;
    }
    // read the final values only after the actor has ended: the guard of the last handler may still be about to
    // record when its reply has already been received
    rt.block_on(async {
        let _ = r.stop().await;
        let _ = jh.await;
    });
    let final_count = r.message_count();
    let snap = r.metrics();
    // a second, deterministic part: an actor whose handlers come from #[message_handlers] (one of them returns Err
    // after a tell): every message whose handler was entered counts, whatever the handler returned
    let (macro_entered, macro_count) = rt.block_on(async {
        let (r, jh) = rsactor::spawn::<macro_actor::Counter>(macro_actor::Counter { entered: 0 });
        let _ = r.tell(macro_actor::Add(1, false)).await;
        let _ = r.tell(macro_actor::Add(2, true)).await;
        let _ = r.tell(macro_actor::Add(3, false)).await;
        let entered = r.ask(macro_actor::Get).await.unwrap_or(0) + 1;
        let _ = r.stop().await;
        let _ = jh.await;
        (entered as u64, r.message_count())
    });
    println!(
        "{}",
        serde_json::json!({"readers": readers, "asks": n, "handled": handled, "message_count": final_count, "snapshot_count": snap.message_count,
            "macro_actor_handlers_entered": macro_entered, "macro_actor_message_count": macro_count,
            "avg_ns": snap.avg_processing_time.as_nanos() as u64, "max_ns": snap.max_processing_time.as_nanos() as u64, "reads": reads, "decreases_seen": decreased})
    );
}

#[cfg(feature = "f_metrics")]
mod macro_actor {
    use rsactor::{message_handlers, Actor, ActorRef};
    #[derive(Actor)]
    pub struct Counter {
        pub entered: u32,
    }
    pub struct Add(pub u32, pub bool);
    pub struct Get;
    #[message_handlers]
    impl Counter {
        #[handler]
        async fn on_add(&mut self, m: Add, _: &ActorRef<Self>) -> Result<u32, String> {
            self.entered += 1;
            if m.1 {
                Err(format!("refused {}", m.0))
            } else {
                Ok(m.0)
            }
        }
        #[handler]
        async fn on_get(&mut self, _m: Get, _: &ActorRef<Self>) -> u32 {
            self.entered
        }
    }
}

#[cfg(not(feature = "f_metrics"))]
fn cmd_stress_metrics(_args: &[String]) {
    println!("{}", serde_json::json!({"error": "needs f_metrics"}));
}

/// rsv tsched --prop C11 [--cap N] [--out file]: every interleaving of the operations on rsactor's process-wide
/// state between real OS threads (hook H4), for the thread scenarios of one property.
fn cmd_tsched(args: &[String]) {
    let prop = arg(args, "--prop").unwrap_or_else(|| "C11".into());
    let cap: u64 = arg(args, "--cap").and_then(|s| s.parse().ok()).unwrap_or(200_000);
    let only = arg(args, "--only");
    let t0 = std::time::Instant::now();
    let mut reports = Vec::new();
    for s in tsched::scenarios_for(&prop) {
        if let Some(o) = &only {
            if s != o {
                continue;
            }
        }
        reports.push(tsched::explore(s, cap, tsched::bound_for(s, arg(args, "--tier").as_deref() == Some("thorough"))));
    }
    let res = serde_json::json!({"prop": prop, "reports": reports, "wall_s": t0.elapsed().as_secs_f64()});
    let text = serde_json::to_string(&res).unwrap();
    match arg(args, "--out") {
        Some(f) => std::fs::write(f, text).unwrap(),
        None => println!("{text}"),
    }
}

/// rsv tsched-replay <replay.json>: run one recorded thread schedule again (twice) and print what it shows.
fn cmd_tsched_replay(args: &[String]) {
    let path = args.get(2).expect("replay file");
    let v: serde_json::Value = serde_json::from_str(&std::fs::read_to_string(path).unwrap()).unwrap();
    let scenario = v["scenario"].as_str().unwrap().to_string();
    let schedule: Vec<u8> = v["schedule"].as_array().unwrap().iter().map(|x| x.as_u64().unwrap() as u8).collect();
    let mut all = Vec::new();
    for _ in 0..2 {
        let (ex, out) = tsched::run_scenario(&scenario, &schedule);
        all.push(serde_json::json!({"error": ex.error, "choices": ex.choices, "summary": out.summary, "violations": out.violations}));
    }
    let same = all[0] == all[1];
    let violated = all[0]["violations"].as_array().map(|a| !a.is_empty()).unwrap_or(false);
    println!("{}", serde_json::json!({"scenario": scenario, "runs": all, "deterministic": same, "violated": violated}));
    std::process::exit(if violated { 1 } else { 0 });
}

fn cmd_bthreads(args: &[String]) {
    let thorough = arg(args, "--tier").as_deref() == Some("thorough");
    let shard: usize = arg(args, "--shard").map(|s| s.parse().unwrap()).unwrap_or(0);
    let nshards: usize = arg(args, "--nshards").map(|s| s.parse().unwrap()).unwrap_or(1);
    let out = arg(args, "--out");
    let only = arg(args, "--only");
    let progress = arg(args, "--progress");
    let t0 = std::time::Instant::now();
    let scns = bthreads::scenarios(thorough);
    let mut runs = 0u64;
    let mut opsn = 0u64;
    let mut distinct: std::collections::HashSet<String> = Default::default();
    let mut found: Vec<serde_json::Value> = Vec::new();
    let mut sample = None;
    let mut k = 0usize;
    let mut total_orders = 0usize;
    for scn in &scns {
        if let Some(o) = &only {
            if !scn.name.contains(o.as_str()) {
                continue;
            }
        }
        let lens: Vec<usize> = scn.callers.iter().map(|c| c.ops.len()).collect();
        let all = bthreads::orders(&lens);
        total_orders += all.len();
        for order in all {
            k += 1;
            if k % nshards != shard {
                continue;
            }
            if let Some(pf) = &progress {
                // (if the process dies in the middle of an order, this is what it was doing)
                let _ = std::fs::write(pf, serde_json::to_string(&serde_json::json!({"scenario": scn, "order": order})).unwrap());
            }
            let run = bthreads::run_order(scn, &order);
            runs += 1;
            opsn += run.ops.len() as u64;
            let outcome = format!("{}|{:?}|{:?}", scn.name, run.ops.iter().map(|o| (o.caller, o.idx, format!("{:?}", o.res))).collect::<Vec<_>>(), run.log.iter().map(|l| format!("{:?}", l.1)).collect::<Vec<_>>());
            distinct.insert(outcome);
            let viol = bthreads::check_run(scn, &run);
            if sample.is_none() {
                sample = Some(serde_json::json!({"scenario": scn.name, "order": order, "ops": run.ops, "handler_log": run.log}));
            }
            if !viol.is_empty() && found.len() < 3 {
                // a violation must show again when the same order is run again (threads are free-running)
                let again = bthreads::check_run(scn, &bthreads::run_order(scn, &order));
                found.push(serde_json::json!({"scenario": scn, "order": order, "violations": viol, "recurred": !again.is_empty(), "run": run}));
            }
        }
    }
    let res = serde_json::json!({"prop": "C17", "runs": runs, "ops": opsn, "distinct_outcomes": distinct.len(), "orders_total": total_orders, "scenarios": scns.len(), "found": found, "sample": sample, "wall_s": t0.elapsed().as_secs_f64()});
    let text = serde_json::to_string(&res).unwrap();
    match out {
        Some(f) => std::fs::write(f, text).unwrap(),
        None => println!("{text}"),
    }
}

/// Sampling, not exhaustive (DESIGN.md L1): N OS threads spawn actors at the same instant, round after round;
/// all ids must be distinct. Sound when it fires; silence proves nothing about atomicity.
fn cmd_stress_ids(args: &[String]) {
    use rsactor::{Actor, ActorRef};
    struct Tiny;
    impl Actor for Tiny {
        type Args = ();
        type Error = String;
        async fn on_start(_: (), _: &ActorRef<Self>) -> Result<Self, String> {
            Ok(Tiny)
        }
    }
    let threads: usize = args.get(2).and_then(|s| s.parse().ok()).unwrap_or(8);
    let rounds: usize = args.get(3).and_then(|s| s.parse().ok()).unwrap_or(1500);
    let barrier = Arc::new(std::sync::Barrier::new(threads));
    let mut hs = Vec::new();
    for _ in 0..threads {
        let b = barrier.clone();
        hs.push(std::thread::spawn(move || {
            let rt = tokio::runtime::Builder::new_current_thread().build().unwrap();
            let mut ids = Vec::with_capacity(rounds);
            rt.block_on(async {
                for _ in 0..rounds {
                    b.wait();
                    let (r, jh) = rsactor::spawn::<Tiny>(());
                    ids.push(r.identity().id);
                    drop(r);
                    let _ = jh.await;
                }
            });
            ids
        }));
    }
    let mut all: Vec<u64> = Vec::new();
    for h in hs {
        all.extend(h.join().unwrap());
    }
    let n = all.len();
    all.sort_unstable();
    let dups = all.windows(2).filter(|w| w[0] == w[1]).count();
    println!("{}", serde_json::json!({"threads": threads, "rounds": rounds, "ids": n, "duplicates": dups}));
}
