mod explore;
mod model;
mod msched;
mod valenum;
mod world;

use std::sync::Arc;

use model::*;

pub fn render(e: &Ev) -> String {
    format!("t={} o={:?} {:?}", e.t, e.owner, e.k)
}

fn smoke() -> Scenario {
    let mut a = ActorSpec::plain(2);
    a.on_run = vec![];
    Scenario {
        name: "smoke".into(),
        actors: vec![a],
        clients: vec![
            Program::new(
                vec![(0, 0)],
                vec![
                    Step::Send { kind: SendKind::Tell, slot: 0, msg: MsgSpec::m1(1) },
                    Step::Send { kind: SendKind::Ask, slot: 0, msg: MsgSpec::m1(2) },
                    Step::DropH(0),
                ],
            ),
            Program::new(
                vec![(0, 0)],
                vec![Step::Send { kind: SendKind::AskTO(10), slot: 0, msg: MsgSpec::m1(3).steps(vec![Step::Sleep(20)]) }, Step::Stop(0)],
            ),
        ],
        registry: false,
        seed: 0,
        tags: vec![],
    }
}

fn main() {
    msched::install_panic_hook();
    msched::install_tracing();
    let scn = Arc::new(smoke());
    let (r, _) = explore::run_schedule(&scn, &[]);
    for e in &r.trace {
        println!("{}", render(e));
    }
    println!("steps={:?} err={:?}", r.steps.iter().map(|s| (s.n, s.chosen, s.cont)).collect::<Vec<_>>(), r.error);
    let mut stats = explore::Stats::default();
    let mut sample = None;
    let t = std::time::Instant::now();
    let out = explore::explore_scenario(
        &scn,
        &explore::Limits { bound: None, max_execs: 2_000_000 },
        &|_s, _t| vec![],
        &mut stats,
        &mut sample,
    );
    println!("{:?} exhaustive={} in {:?}", stats, out.exhaustive, t.elapsed());
}
